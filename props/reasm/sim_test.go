// Package reasm hosts the simulations of package reassembly
// (C09, C11 reassembly part, C12 reassembly part).
package reasm

import (
	"bytes"
	"io"
	"log"
	"os"
	"sync"
	"testing"
	"time"

	"github.com/gopacket/gopacket"
	"github.com/gopacket/gopacket/layers"
	"github.com/gopacket/gopacket/reassembly"

	"verif/sim"
	"verif/sim/bubble"
	"verif/sim/tcpsim"
)

// keep policies of the stream stub
const (
	keepNever = iota
	keepAll
	keepRandom
	keepNothingExplicit
	keepOnLast
)

type adapter struct {
	h        *tcpsim.Harness
	pool     *reassembly.StreamPool
	a        *reassembly.Assembler
	keep     int
	complete int  // 0 always remove, 1 never, 2 by tape
	clock    bool // packets are fed with Assemble(), which reads the (simulated) clock itself
}

type actx struct{ ci gopacket.CaptureInfo }

func (a *actx) GetCaptureInfo() gopacket.CaptureInfo { return a.ci }

type stream struct {
	ad   *adapter
	s    *tcpsim.Stream
	kept map[int][]byte // per direction index: bytes the stub asked to keep
	has  map[int]bool
}

func (st *stream) Accept(tcp *layers.TCP, ci gopacket.CaptureInfo, dir reassembly.TCPFlowDirection, nextSeq reassembly.Sequence, start *bool, ac reassembly.AssemblerContext) bool {
	st.ad.h.Enter(st.s)
	st.ad.h.Leave(st.s)
	return true
}

func (st *stream) ReassembledSG(sg reassembly.ScatterGather, ac reassembly.AssemblerContext) {
	h := st.ad.h
	c := h.C
	h.Enter(st.s)
	defer h.Leave(st.s)
	dir, start, end, skip := sg.Info()
	total, saved := sg.Lengths()
	side := 0
	if dir == reassembly.TCPDirServerToClient {
		side = 1
	}
	d := h.DirOf(st.s, side)
	data := sg.Fetch(total)
	if len(data) != total {
		c.Fail("in-order", "fetch-length", "ScatterGather", "Fetch(%d) returned %d bytes", total, len(data))
	}
	if saved < 0 || saved > total {
		c.Fail("keep", "saved-out-of-range", "ScatterGather", "saved=%d total=%d", saved, total)
	}
	_ = sg.Stats()
	var seen time.Time
	if total > saved {
		seen = sg.CaptureInfo(saved).Timestamp
	}
	// kept bytes come back, unchanged, directly in front of the new data
	if st.has[d.Idx] {
		kept := st.kept[d.Idx]
		if skip == 0 {
			if saved != len(kept) || !bytes.Equal(data[:saved], kept) {
				c.Fail("keep", "kept-bytes-not-presented", "ScatterGather", "dir %d: stream kept %d bytes; next delivery (skip 0) presents %d saved bytes, equal=%v", d.Idx, len(kept), saved, saved == len(kept) && bytes.Equal(data[:saved], kept))
			}
			if len(kept) > 0 {
				c.Probe("kept_bytes_presented")
			}
		} else if saved != 0 {
			// across a gap the kept bytes cannot be "directly in front":
			// the code drops them; if it presents them they must be right
			if saved != len(kept) || !bytes.Equal(data[:saved], kept) {
				c.Fail("keep", "kept-bytes-altered", "ScatterGather", "dir %d: %d saved bytes presented across a gap differ from the %d kept", d.Idx, saved, len(kept))
			}
		}
	} else if saved != 0 {
		c.Fail("keep", "unrequested-saved-bytes", "ScatterGather", "dir %d: %d saved bytes presented although nothing was kept", d.Idx, saved)
	}
	h.Deliver(st.s, d, skip, data[saved:], start, end, seen)
	if total > 1900*2 && saved > 0 {
		c.Probe("multi_page_with_saved")
	}
	// decide what to keep
	k := -1
	switch st.ad.keep {
	case keepAll:
		k = 0
	case keepRandom:
		if c.Chance(600) {
			k = c.Draw(total + 1)
		}
	case keepNothingExplicit:
		k = total
	case keepOnLast:
		if end {
			k = 0
		}
	}
	if k >= 0 {
		sg.KeepFrom(k)
		st.kept[d.Idx] = append([]byte(nil), data[k:]...)
		st.has[d.Idx] = true
		c.Ev("keep", int64(d.Idx), int64(k), int64(total))
		if k < total {
			c.Fault("stream_keeps_bytes")
		}
	} else {
		st.has[d.Idx] = false
	}
	if c.Draw(8) == 1 {
		// Fetch of a prefix equals the prefix of the full fetch
		if total > 0 {
			n := 1 + c.Draw(total)
			if !bytes.Equal(sg.Fetch(n), data[:n]) {
				c.Fail("in-order", "fetch-prefix", "ScatterGather", "Fetch(%d) is not a prefix of Fetch(%d)", n, total)
			}
		}
	}
}

func (st *stream) ReassemblyComplete(ac reassembly.AssemblerContext) bool {
	h := st.ad.h
	h.Enter(st.s)
	defer h.Leave(st.s)
	remove := true
	switch st.ad.complete {
	case 1:
		remove = false
	case 2:
		remove = !h.C.Chance(400)
	}
	h.Complete(st.s, remove)
	return remove
}

type factory struct{ ad *adapter }

func (f *factory) New(n, t gopacket.Flow, tcp *layers.TCP, ac reassembly.AssemblerContext) reassembly.Stream {
	return &stream{ad: f.ad, s: f.ad.h.NewStream(n, t), kept: map[int][]byte{}, has: map[int]bool{}}
}

func mkWith(keepPolicies bool, completePolicies bool) func(h *tcpsim.Harness) tcpsim.Assembler {
	return func(h *tcpsim.Harness) tcpsim.Assembler {
		ad := &adapter{h: h}
		if keepPolicies {
			ad.keep = h.C.Weighted(3, 2, 3, 1, 1)
		}
		if completePolicies {
			ad.complete = h.C.Weighted(3, 1, 2)
		}
		h.NoKeep = ad.keep == keepNever || ad.keep == keepNothingExplicit
		h.C.Ev("policy", int64(ad.keep), int64(ad.complete))
		ad.pool = reassembly.NewStreamPool(&factory{ad})
		ad.a = reassembly.NewAssembler(ad.pool)
		return ad
	}
}

func (ad *adapter) Assemble(n gopacket.Flow, t *layers.TCP, ts time.Time) {
	if ad.clock {
		// Assemble builds its own context from time.Now(): inside the bubble that
		// is the simulated clock, advanced here to the packet's capture time
		if d := time.Until(ts); d > 0 {
			time.Sleep(d)
		}
		ad.a.Assemble(n, t)
		return
	}
	ad.a.AssembleWithContext(n, t, &actx{gopacket.CaptureInfo{Timestamp: ts, CaptureLength: len(t.Payload), Length: len(t.Payload)}})
}
func (ad *adapter) FlushT(t time.Time) (int, int) {
	return ad.a.FlushWithOptions(reassembly.FlushOptions{T: t})
}
func (ad *adapter) FlushClose(t time.Time) (int, int) { return ad.a.FlushCloseOlderThan(t) }
func (ad *adapter) FlushTTC(t, tc time.Time) (int, int) {
	return ad.a.FlushWithOptions(reassembly.FlushOptions{T: t, TC: tc})
}
func (ad *adapter) FlushAll() int { return ad.a.FlushAll() }
func (ad *adapter) SetLimits(pc, tot int) {
	ad.a.MaxBufferedPagesPerConnection, ad.a.MaxBufferedPagesTotal = pc, tot
}
func (ad *adapter) PagesUsed() int                      { return ad.a.VerifPagesUsed() }
func (ad *adapter) PoolConns() int                      { n, _, _ := ad.pool.VerifStats(); return n }
func (ad *adapter) Queued() (int, int, time.Time, bool) { return ad.pool.VerifQueued() }
func (ad *adapter) Buffered() int                       { return ad.pool.VerifBuffered() }

func init() {
	reassembly.VerifOrder = func(keys []string) []int {
		p := make([]int, len(keys))
		for i := range p {
			p[i] = i
		}
		return p
	}
}

// ---- C12: several assemblers on one pool under the cooperative scheduler ----

type stream12 struct {
	h *tcpsim.C12
	s *tcpsim.C12Stream
}

func (st *stream12) Accept(tcp *layers.TCP, ci gopacket.CaptureInfo, dir reassembly.TCPFlowDirection, nextSeq reassembly.Sequence, start *bool, ac reassembly.AssemblerContext) bool {
	st.h.Accept(st.s)
	return true
}

func (st *stream12) ReassembledSG(sg reassembly.ScatterGather, ac reassembly.AssemblerContext) {
	dir, start, end, skip := sg.Info()
	total, saved := sg.Lengths()
	side := 0
	if dir == reassembly.TCPDirServerToClient {
		side = 1
	}
	data := sg.Fetch(total)
	st.h.Deliver(st.s, side, skip, data[saved:], start, end)
}

func (st *stream12) ReassemblyComplete(ac reassembly.AssemblerContext) bool {
	st.h.Complete(st.s)
	return true
}

type factory12 struct{ h *tcpsim.C12 }

func (f *factory12) New(n, t gopacket.Flow, tcp *layers.TCP, ac reassembly.AssemblerContext) reassembly.Stream {
	return &stream12{f.h, f.h.NewStream(n, t)}
}

type asm12 struct{ a *reassembly.Assembler }

func (a asm12) Assemble(n gopacket.Flow, t *layers.TCP, ts time.Time) {
	a.a.AssembleWithContext(n, t, &actx{gopacket.CaptureInfo{Timestamp: ts}})
}
func (a asm12) FlushT(t time.Time) (int, int) {
	return a.a.FlushWithOptions(reassembly.FlushOptions{T: t})
}
func (a asm12) FlushAll() int                     { return a.a.FlushAll() }
func (a asm12) FlushClose(t time.Time) (int, int) { return a.a.FlushCloseOlderThan(t) }

func c12pkg() *tcpsim.C12Pkg {
	var pool *reassembly.StreamPool
	return &tcpsim.C12Pkg{
		Bidir:        true,
		SetHook:      func(f func(int, *sync.Mutex, *sync.RWMutex, bool)) { reassembly.VerifYield = f },
		SetOrder:     func(f func([]string) []int) { reassembly.VerifOrder = f },
		NewPool:      func(h *tcpsim.C12) { pool = reassembly.NewStreamPool(&factory12{h}) },
		NewAssembler: func() tcpsim.C12Asm { return asm12{reassembly.NewAssembler(pool)} },
		PoolConns:    func() int { n, _, _ := pool.VerifStats(); return n },
		Dump:         func() { pool.Dump() },
	}
}

func init() {
	tcpsim.PageBytes = reassembly.VerifPageBytes
	log.SetOutput(io.Discard) // (StreamPool.Dump writes to the standard logger)
}

var sims = map[string]sim.SimFunc{
	"c12r": func(c *sim.Ctx) { tcpsim.RunC12(c, c12pkg()) },
	"c09": func(c *sim.Ctx) {
		tcpsim.Run(c, tcpsim.RunCfg{Strong: true, Bidir: true, Gen: tcpsim.GenCfg{MaxConns: 3, AllowNoEnd: true, AllowRST: true, SynData: true, FinalTTC: true}}, mkWith(true, false))
	},
	"c09clock": func(c *sim.Ctx) {
		bubble.Run(c, func(b *bubble.B) {
			old := tcpsim.Base
			tcpsim.Base = time.Now()
			defer func() { tcpsim.Base = old }()
			inner := mkWith(true, false)
			tcpsim.Run(c, tcpsim.RunCfg{Strong: true, Bidir: true, Gen: tcpsim.GenCfg{MaxConns: 3, AllowNoEnd: true, AllowRST: true, SynData: true}}, func(h *tcpsim.Harness) tcpsim.Assembler {
				ad := inner(h).(*adapter)
				ad.clock = true
				return ad
			})
			c.Probe("assembled_on_simulated_clock")
		})
	},
	"c11r": func(c *sim.Ctx) {
		tcpsim.Run(c, tcpsim.RunCfg{Lifecycle: true, Bidir: true, Gen: tcpsim.GenCfg{MaxConns: 8, AllowNoEnd: true, AllowRST: true, CloseFlush: true, Reopen: true, BackJumps: true, Short: true, SynData: true, Wide: true, Drift: true}}, mkWith(true, true))
	},
}

func TestChild(t *testing.T) {
	bubble.T = t
	if !sim.ChildMain(sims) {
		t.Skip("not a child")
	}
}

func TestMain(m *testing.M) { os.Exit(m.Run()) }

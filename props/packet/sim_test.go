// Package packet hosts the simulations of packet decoding under concurrency
// (C02: determinism, no side effects, shareable eager packets; C04: data
// ownership with NoCopy and Pool) on the cooperative scheduler (engine A).
package packet

import (
	"bytes"
	"encoding/binary"
	"fmt"
	"os"
	"runtime"
	"strings"
	"sync/atomic"
	"testing"
	"unsafe"

	"github.com/gopacket/gopacket"
	"github.com/gopacket/gopacket/layers"
	"github.com/gopacket/gopacket/verifhook"

	"verif/sim"
	"verif/sim/coop"
)

// ---- byte-level packet generator (no gopacket serializers involved) ----

func csum(b []byte, init uint32) uint16 {
	s := init
	for i := 0; i+1 < len(b); i += 2 {
		s += uint32(b[i])<<8 | uint32(b[i+1])
	}
	if len(b)%2 == 1 {
		s += uint32(b[len(b)-1]) << 8
	}
	for s>>16 != 0 {
		s = s&0xffff + s>>16
	}
	return ^uint16(s)
}

func payload(seed, n int) []byte {
	b := make([]byte, n)
	for i := range b {
		b[i] = byte(seed*131 + i*7 + 3)
	}
	return b
}

func eth(etype uint16, inner []byte, vlan bool) []byte {
	b := []byte{2, 0, 0, 0, 0, 1, 2, 0, 0, 0, 0, 2}
	if vlan {
		b = append(b, 0x81, 0x00, 0x20, 0x05)
	}
	b = binary.BigEndian.AppendUint16(b, etype)
	return append(b, inner...)
}

func ip4(proto byte, inner []byte, goodSum bool) []byte {
	h := make([]byte, 20)
	h[0] = 0x45
	binary.BigEndian.PutUint16(h[2:], uint16(20+len(inner)))
	h[4], h[5] = 0x12, 0x34
	h[8] = 64
	h[9] = proto
	copy(h[12:], []byte{10, 0, 0, 1, 10, 0, 0, 2})
	if goodSum {
		binary.BigEndian.PutUint16(h[10:], csum(h, 0))
	}
	return append(h, inner...)
}

func pseudo4(proto byte, l int) uint32 {
	return uint32(10)<<8 + 0 + uint32(0)<<8 + 1 + uint32(10)<<8 + 0 + uint32(0)<<8 + 2 + uint32(proto) + uint32(l)
}

func tcp(data []byte, good bool) []byte {
	h := make([]byte, 20)
	binary.BigEndian.PutUint16(h[0:], 1234)
	binary.BigEndian.PutUint16(h[2:], 80)
	binary.BigEndian.PutUint32(h[4:], 1000)
	h[12] = 5 << 4
	h[13] = 0x18
	binary.BigEndian.PutUint16(h[14:], 8192)
	seg := append(h, data...)
	if good {
		binary.BigEndian.PutUint16(seg[16:], csum(seg, pseudo4(6, len(seg))))
	} else {
		seg[16], seg[17] = 0xde, 0xad
	}
	return seg
}

func udp(sport, dport uint16, data []byte, good bool) []byte {
	h := make([]byte, 8)
	binary.BigEndian.PutUint16(h[0:], sport)
	binary.BigEndian.PutUint16(h[2:], dport)
	binary.BigEndian.PutUint16(h[4:], uint16(8+len(data)))
	seg := append(h, data...)
	if good {
		binary.BigEndian.PutUint16(seg[6:], csum(seg, pseudo4(17, len(seg))))
	}
	return seg
}

func dnsQuery(k int) []byte {
	b := []byte{0xab, 0xcd, 0x01, 0x00, 0, 1, 0, 0, 0, 0, 0, 0}
	for _, label := range [][]string{{"example", "com"}, {"www", "Example", "ORG"}, {"a", "b"}, {"mail", "example", "com"}}[k%4] {
		b = append(b, byte(len(label)))
		b = append(b, label...)
	}
	b = append(b, 0)
	return append(b, 0, 1, 0, 1)
}

// radius builds an Access-Request/Challenge whose EAP packet travels in zero,
// one, two or three EAP-Message attributes (RFC 3579: an EAP packet longer
// than 253 bytes is split over consecutive attributes), with other attributes
// in front of, between the kinds and behind them.
func radius(k int) []byte {
	var attrs []byte
	attr := func(t byte, v []byte) { attrs = append(append(attrs, t, byte(len(v)+2)), v...) }
	attr(1, []byte("alice@example.org"))
	eapLen := []int{0, 40, 300, 600, 253, 254}[k%6]
	if eapLen > 0 {
		eap := make([]byte, eapLen)
		eap[0], eap[1], eap[4] = 1, 7, 13
		binary.BigEndian.PutUint16(eap[2:], uint16(eapLen))
		for i := 5; i < eapLen; i++ {
			eap[i] = byte(i*7 + k)
		}
		for len(eap) > 0 {
			n := min(len(eap), 253)
			attr(79, eap[:n])
			eap = eap[n:]
		}
	}
	attr(4, []byte{10, 0, 0, 9})
	attr(80, bytes.Repeat([]byte{0xA5}, 16))
	if k%2 == 1 {
		attr(32, []byte("nas-7"))
	}
	b := []byte{[]byte{1, 11}[k%2], byte(40 + k), 0, 0}
	b = append(b, bytes.Repeat([]byte{0x3C}, 16)...)
	b = append(b, attrs...)
	binary.BigEndian.PutUint16(b[2:], uint16(len(b)))
	return b
}

// dhcp4 builds a BOOTP/DHCP message whose option area is laid out in one of
// several legal ways: Pad options (code 0) in front of, between and behind
// the others, an overloaded list, options of length 0.
func dhcp4(k int) []byte {
	b := make([]byte, 236)
	b[0], b[1], b[2] = 1, 1, 6
	copy(b[4:], []byte{0xde, 0xad, 0xbe, 0xef})
	copy(b[28:], []byte{0, 0x19, 0xe3, 0xd3, 0x53, 0x52})
	b = append(b, 0x63, 0x82, 0x53, 0x63)
	opt := func(code byte, v ...byte) { b = append(append(b, code, byte(len(v))), v...) }
	pad := func(n int) { b = append(b, make([]byte, n)...) }
	switch k % 6 {
	case 0:
		opt(53, 1)
		opt(55, 1, 3, 6, 15)
		opt(12, 'h', 'o', 's', 't')
	case 1:
		pad(1)
		opt(53, 3)
		pad(1)
		opt(12, 'a', 'b')
		pad(2)
		opt(50, 10, 0, 0, 9)
	case 2:
		pad(3)
		opt(53, 5)
		opt(51, 0, 0, 14, 16)
		opt(1, 255, 255, 255, 0)
		pad(1)
		opt(3, 10, 0, 0, 1)
		opt(6, 10, 0, 0, 2, 10, 0, 0, 3)
	case 3:
		opt(53, 2)
		pad(2)
		opt(54, 10, 0, 0, 1)
		pad(1)
		opt(61, 1, 0, 0x19, 0xe3, 0xd3, 0x53, 0x52)
		pad(1)
		pad(1)
		opt(57, 5, 220)
	case 4:
		opt(53, 8)
		opt(60)
		opt(12, 'x')
	case 5:
		opt(53, 1)
		pad(1)
		opt(55, 1, 121, 3, 6, 15, 119, 252)
		pad(1)
		opt(12, 'M', 'a', 'c')
		pad(1)
		opt(82, 1, 2, 7, 7)
	}
	b = append(b, 255)
	pad(k % 4) // (after End: not part of the list)
	return b
}

// dnsResponse builds an answer with several record types: A, AAAA, CNAME with
// a compression pointer, TXT with one to three character-strings, MX, SRV.
func dnsResponse(k int) []byte {
	b := []byte{0xab, 0xcd, 0x81, 0x80, 0, 1, 0, 0, 0, 0, 0, 0}
	qname := []byte{7, 'e', 'x', 'a', 'm', 'p', 'l', 'e', 3, 'c', 'o', 'm', 0}
	b = append(b, qname...)
	b = append(b, 0, 16, 0, 1)
	n := 0
	rr := func(typ uint16, rdata []byte) {
		b = append(b, 0xc0, 12) // pointer to the question name
		b = binary.BigEndian.AppendUint16(b, typ)
		b = append(b, 0, 1, 0, 0, 1, 0x2c)
		b = binary.BigEndian.AppendUint16(b, uint16(len(rdata)))
		b = append(b, rdata...)
		n++
	}
	txt := func(strs ...string) []byte {
		var r []byte
		for _, s := range strs {
			r = append(r, byte(len(s)))
			r = append(r, s...)
		}
		return r
	}
	switch k % 6 {
	case 0:
		rr(16, txt("v=spf1 include:example.net", "ip4:192.0.2.0/24 -all"))
	case 1:
		rr(16, txt("one"))
		rr(16, txt("a", "bb", "ccc"))
	case 2:
		rr(1, []byte{192, 0, 2, 7})
		rr(28, append(make([]byte, 15), 1))
		rr(5, []byte{3, 'w', 'w', 'w', 0xc0, 12})
	case 3:
		rr(15, append([]byte{0, 10}, 4, 'm', 'a', 'i', 'l', 0xc0, 12))
		rr(33, append([]byte{0, 1, 0, 2, 0x01, 0xbb}, 3, 's', 'i', 'p', 0xc0, 12))
	case 4:
		rr(16, txt("", "x", ""))
		rr(2, []byte{2, 'n', 's', 0xc0, 12})
	case 5:
		rr(16, txt("k=rsa; p=MIGfMA0GCSqGSIb3DQEBAQUAA4GNADCBiQKBgQC", "second half of the key", "third"))
		rr(6, append(append([]byte{2, 'n', 's', 0xc0, 12}, 4, 'r', 'o', 'o', 't', 0xc0, 12), make([]byte, 20)...))
	}
	binary.BigEndian.PutUint16(b[6:], uint16(n))
	return b
}

func icmp4(data []byte) []byte {
	b := append([]byte{8, 0, 0, 0, 0, 1, 0, 2}, data...)
	binary.BigEndian.PutUint16(b[2:], csum(b, 0))
	return b
}

func ip6(next byte, inner []byte) []byte {
	h := make([]byte, 40)
	h[0] = 0x60
	binary.BigEndian.PutUint16(h[4:], uint16(len(inner)))
	h[6] = next
	h[7] = 64
	h[8], h[23] = 0xfd, 1
	h[24], h[39] = 0xfd, 2
	return append(h, inner...)
}

func icmp6(data []byte) []byte { return append([]byte{128, 0, 0x12, 0x34, 0, 1, 0, 2}, data...) }

func gre(inner []byte) []byte { return append([]byte{0, 0, 0x08, 0x00}, inner...) }

// fixLengths makes the IPv4/IPv6 and UDP length fields of an Ethernet frame
// agree with its size again after bytes were inserted or removed behind them.
func fixLengths(b []byte) {
	if len(b) < 14 {
		return
	}
	off, et := 14, binary.BigEndian.Uint16(b[12:])
	if et == 0x8100 && len(b) >= 18 {
		off, et = 18, binary.BigEndian.Uint16(b[16:])
	}
	switch {
	case et == 0x0800 && len(b) >= off+20:
		ihl := int(b[off]&0xf) * 4
		binary.BigEndian.PutUint16(b[off+2:], uint16(len(b)-off))
		if b[off+9] == 17 && len(b) >= off+ihl+8 {
			binary.BigEndian.PutUint16(b[off+ihl+4:], uint16(len(b)-off-ihl))
		}
	case et == 0x86dd && len(b) >= off+40:
		binary.BigEndian.PutUint16(b[off+4:], uint16(len(b)-off-40))
		if b[off+6] == 17 && len(b) >= off+48 {
			binary.BigEndian.PutUint16(b[off+44:], uint16(len(b)-off-40))
		}
	}
}

// corpus draws 4..12 inputs: well-formed stacks plus truncations and bit flips.
func corpus(c *sim.Ctx, big bool) ([][]byte, []gopacket.Decoder) {
	var out [][]byte
	var firsts []gopacket.Decoder
	n := 4 + c.Draw(9)
	for i := 0; i < n; i++ {
		var first gopacket.Decoder = layers.LayerTypeEthernet
		pl := payload(i, c.Draw(60))
		if big && c.Chance(200) {
			pl = payload(i, 1400+c.Draw(300)) // around the pool block size
		}
		good := c.Draw(2) == 0
		var b []byte
		switch c.Draw(16) {
		case 15:
			b = eth(0x0800, ip4(17, udp(40000, 1812, radius(c.Draw(6)), good), true), false)
		case 14:
			b = eth(0x0800, ip4(17, udp(68, 67, dhcp4(c.Draw(6)), good), true), false)
		case 8:
			b = eth(0x0800, ip4(17, udp(53, 5353, dnsResponse(c.Draw(6)), good), true), false)
		case 9, 10, 11, 12, 13:
			// a packet of gopacket's own layer tests (bytes only): many more protocols
			sm := samples[c.Draw(len(samples))]
			b, first = []byte(sm.data), sm.first
			c.Fault("layer_test_sample")
		case 0:
			b = eth(0x0800, ip4(6, tcp(pl, good), good), false)
		case 1:
			b = eth(0x0800, ip4(17, udp(5000, 6000, pl, good), good), c.Draw(2) == 0)
		case 2:
			b = eth(0x0800, ip4(17, udp(5353, 53, dnsQuery(c.Draw(4)), good), true), false)
		case 3:
			b = eth(0x0800, ip4(1, icmp4(pl), good), false)
		case 4:
			b = eth(0x86dd, ip6(58, icmp6(pl)), false)
		case 5:
			b = eth(0x86dd, ip6(6, tcp(pl, false)), c.Draw(2) == 0)
		case 6:
			b = eth(0x0800, ip4(47, gre(ip4(17, udp(1, 2, pl, good), good)), good), false)
		case 7:
			b = eth(0x0806, payload(i, 28), false)
		}
		if i > 0 && c.Chance(400) {
			// a near-duplicate of an earlier input (same conversation, a
			// retransmission, the answer to a query, a differently spelled name):
			// what state kept between decodes is most likely to confuse
			j := c.Draw(i)
			b, first = append([]byte(nil), out[j]...), firsts[j]
			if len(b) > 0 {
				switch c.Draw(3) {
				case 0: // ASCII case of one letter
					var letters []int
					for k, x := range b {
						if x|0x20 >= 'a' && x|0x20 <= 'z' {
							letters = append(letters, k)
						}
					}
					if len(letters) > 0 {
						b[letters[c.Draw(len(letters))]] ^= 0x20
					}
				case 1:
					b[c.Draw(len(b))]++
				case 2: // identical bytes in a different buffer
				}
			}
			c.Fault("near_duplicate_input")
		}
		if c.Chance(120) {
			// text protocols: one to three runs of ASCII digits are replaced by
			// numbers a parser may choke on (several fields can be bad at once)
			for k := 1 + c.Draw(3); k > 0; k-- {
				var runs [][2]int
				for i := 0; i < len(b); i++ {
					if b[i] >= '0' && b[i] <= '9' && (i == 0 || b[i-1] == ' ' || b[i-1] == ':' || b[i-1] == '=') {
						j := i
						for j < len(b) && b[j] >= '0' && b[j] <= '9' {
							j++
						}
						runs = append(runs, [2]int{i, j})
						i = j
					}
				}
				if len(runs) == 0 {
					break
				}
				r := runs[c.Draw(len(runs))]
				rep := []string{"-129", "4294967296", "99999999999999999999", "0", "-0", "1e9"}[c.Draw(6)]
				b = append(append(append([]byte(nil), b[:r[0]]...), rep...), b[r[1]:]...)
			}
			if first == gopacket.Decoder(layers.LayerTypeEthernet) || first == gopacket.Decoder(layers.LinkTypeEthernet) {
				fixLengths(b)
			}
			c.Fault("numbers_in_text_replaced")
		}
		if c.Chance(120) {
			// header-style lines "Name: <number>": each number is replaced with
			// probability 1/2, so that several header fields are malformed at once
			var out2 []byte
			changed := false
			for i := 0; i < len(b); {
				if (i == 0 || b[i-1] == '\n') && i < len(b) {
					j := i
					for j < len(b) && j-i < 32 && (b[j] == '-' || b[j]|0x20 >= 'a' && b[j]|0x20 <= 'z') {
						j++
					}
					if j > i && j < len(b) && b[j] == ':' {
						k := j + 1
						for k < len(b) && b[k] == ' ' {
							k++
						}
						e := k
						for e < len(b) && b[e] >= '0' && b[e] <= '9' {
							e++
						}
						if e > k && c.Draw(2) == 1 {
							out2 = append(out2, b[i:k]...)
							out2 = append(out2, []string{"-129", "4294967296", "99999999999999999999", "-0"}[c.Draw(4)]...)
							i = e
							changed = true
							continue
						}
					}
				}
				out2 = append(out2, b[i])
				i++
			}
			if changed {
				b = out2
				if first == gopacket.Decoder(layers.LayerTypeEthernet) || first == gopacket.Decoder(layers.LinkTypeEthernet) {
					fixLengths(b)
				}
				c.Fault("header_numbers_replaced")
			}
		}
		if c.Chance(40) && len(b) >= 34 && b[12] == 0x08 && b[13] == 0x00 && (first == gopacket.Decoder(layers.LayerTypeEthernet) || first == gopacket.Decoder(layers.LinkTypeEthernet)) {
			// as captured on a host with TCP segmentation offload: the IPv4
			// total-length field is still zero
			b = append([]byte(nil), b...)
			b[16], b[17] = 0, 0
			c.Fault("ipv4_total_length_zero")
		}
		switch c.Weighted(5, 2, 2) {
		case 1:
			b = b[:c.Draw(len(b)+1)]
			c.Fault("truncated_input")
		case 2:
			if len(b) > 0 {
				b[c.Draw(len(b))] ^= byte(1 << c.Draw(8))
				c.Fault("bit_flip_input")
			}
		}
		// the caller's slice has spare capacity holding other data (a capture
		// ring, a reused read buffer): nothing behind len() belongs to the packet
		tail := 1 + c.Draw(40)
		buf := make([]byte, len(b)+tail)
		copy(buf, b)
		for k := len(b); k < len(buf); k++ {
			buf[k] = byte(0xC3 + k*29 + i)
		}
		out = append(out, buf[:len(b)])
		firsts = append(firsts, first)
	}
	return out, firsts
}

// signature renders everything observable about a packet without addresses.
func signature(p gopacket.Packet) string {
	var sb strings.Builder
	for _, l := range p.Layers() {
		fmt.Fprintf(&sb, "%v|%x|%x|", l.LayerType(), l.LayerContents(), l.LayerPayload())
		if _, ok := l.(*gopacket.DecodeFailure); ok {
			sb.WriteString("decode-failure\n") // its dump contains a goroutine stack
			continue
		}
		func() {
			// (a renderer that panics on a decoded layer is property C01's
			// business; here only "same packet, same answer" matters)
			defer func() {
				if r := recover(); r != nil {
					fmt.Fprintf(&sb, "render-panic:%s", sim.PanicMsg(r))
				}
			}()
			sb.WriteString(gopacket.LayerString(l))
		}()
		sb.WriteByte('\n')
	}
	m := p.Metadata()
	fmt.Fprintf(&sb, "trunc=%v err=%v", m.Truncated, p.ErrorLayer() != nil)
	if l := p.LinkLayer(); l != nil {
		fmt.Fprintf(&sb, " link=%v", l.LinkFlow())
	}
	if l := p.NetworkLayer(); l != nil {
		fmt.Fprintf(&sb, " net=%v", l.NetworkFlow())
	}
	if l := p.TransportLayer(); l != nil {
		fmt.Fprintf(&sb, " tr=%v", l.TransportFlow())
	}
	if l := p.ApplicationLayer(); l != nil {
		fmt.Fprintf(&sb, " app=%d", len(l.Payload()))
	}
	// checksum verification is part of what a decode "returns"
	err, mm := p.VerifyChecksums()
	fmt.Fprintf(&sb, " vc=%v/%d", err, len(mm))
	for _, m := range mm {
		fmt.Fprintf(&sb, "[%d %v %x/%x]", m.LayerIndex, m.Valid, m.Correct, m.Actual)
	}
	return sb.String()
}

// prepare does what a program does before it can verify TCP/UDP/ICMPv6
// checksums of a decoded packet (examples/reassemblydump): it tells every
// layer that needs a pseudo-header which network layer encloses it. This is
// the caller's one write to the packet, done before the packet is shared.
func prepare(p gopacket.Packet) {
	var cur gopacket.NetworkLayer
	for _, l := range p.Layers() {
		if nl, ok := l.(gopacket.NetworkLayer); ok {
			cur = nl
			continue
		}
		if st, ok := l.(interface {
			SetNetworkLayerForChecksum(gopacket.NetworkLayer) error
		}); ok && cur != nil {
			st.SetNetworkLayerForChecksum(cur)
		}
	}
}

// safe runs a renderer; a renderer that panics on some decoded layer is
// property C01's business, here only "same packet, same answer" matters.
func safe(f func() string) (out string) {
	defer func() {
		if r := recover(); r != nil {
			out = "render-panic:" + sim.PanicMsg(r)
		}
	}()
	return f()
}

// done gives a pooled packet back (decodes with the Pool option are disposed
// as soon as their signature has been taken, so blocks and whatever else is
// recycled with them circulate between workers).
func done(p gopacket.Packet) {
	if pp, ok := p.(gopacket.PooledPacket); ok {
		pp.Dispose()
	}
}

// readAll exercises the read-only accessors of a shared eager packet.
func readAll(p gopacket.Packet, which int) string {
	var sb strings.Builder
	switch which % 5 {
	case 0:
		sb.WriteString(signature(p))
	case 1:
		sb.WriteString(safe(p.String))
		for _, l := range p.Layers() {
			// rendered for the race detector's sake; Go syntax can contain
			// addresses, so the text is not compared
			func() {
				// (LayerGoString panics on some decoded layers: total rendering is
				// property C01, not claimed here; the call is only made for its reads)
				defer func() { recover() }()
				_ = gopacket.LayerGoString(l)
			}()
			_ = safe(func() string { return gopacket.LayerDump(l) })
		}
		_ = p.Data()
		_ = p.Metadata().CaptureInfo
	case 2:
		d := safe(p.Dump)
		if p.ErrorLayer() != nil {
			d = "dump-with-error"
		}
		sb.WriteString(d)
	case 3:
		err, mm := p.VerifyChecksums()
		fmt.Fprintf(&sb, "vc err=%v n=%d", err, len(mm))
		for _, m := range mm {
			fmt.Fprintf(&sb, " [%d %v %x/%x]", m.LayerIndex, m.Valid, m.Correct, m.Actual)
		}
	case 4:
		for _, t := range []gopacket.LayerType{layers.LayerTypeEthernet, layers.LayerTypeIPv4, layers.LayerTypeTCP, layers.LayerTypeUDP, layers.LayerTypeDNS, layers.LayerTypeIPv6} {
			if l := p.Layer(t); l != nil {
				fmt.Fprintf(&sb, "%v:%d ", t, len(l.LayerContents()))
			}
		}
		if l := p.LayerClass(layers.LayerClassIPNetwork); l != nil {
			fmt.Fprintf(&sb, "class:%v", l.LayerType())
		}
	}
	return sb.String()
}

func opts(k int) gopacket.DecodeOptions {
	switch k {
	case 1:
		return gopacket.NoCopy
	case 2:
		return gopacket.DecodeOptions{DecodeStreamsAsDatagrams: true}
	case 3:
		return gopacket.DecodeOptions{NoCopy: true, DecodeStreamsAsDatagrams: true}
	case 4:
		return gopacket.DecodeOptions{Pool: true}
	}
	return gopacket.Default
}

// shared is a packet published by one worker for the others: the atomic
// pointer is the one real synchronisation a program needs to hand it over.
type shared struct {
	p    atomic.Pointer[gopacket.Packet]
	in   int
	want [5]string
}

// ---- C02 ----

func simC02(c *sim.Ctx)     { runC02(c, false) }
func simC02cold(c *sim.Ctx) { runC02(c, true) }

// runC02: in cold mode nothing is decoded or rendered before the workers
// start (the run is the first of its process), so that whatever gopacket
// computes on first use and keeps for the life of the process - a table, a
// cache - is first used by concurrent workers; their answers are compared
// with each other and with a reference taken after the run.
func runC02(c *sim.Ctx, cold bool) {
	inputs, firsts := corpus(c, false)
	pristine := make([][]byte, len(inputs))
	for i, b := range inputs {
		pristine[i] = append([]byte(nil), b...)
	}
	// reference signatures, taken in a quiet state
	ref := make([][10]string, len(inputs))
	mkRef := func() {
		for i := range inputs {
			for k := 0; k < 10; k++ {
				p := gopacket.NewPacket(pristine[i], firsts[i], opts(k%5))
				if k >= 5 {
					prepare(p)
				}
				ref[i][k] = signature(p)
				done(p)
			}
		}
	}
	type obs struct {
		kind, a, b int
		got        string
	}
	for i := range inputs {
		if cold {
			break
		}
		for k := 0; k < 10; k++ {
			// from a separate copy of the same bytes: what lies behind len() of
			// the caller's slice must not matter
			p := gopacket.NewPacket(pristine[i], firsts[i], opts(k%5))
			if k >= 5 {
				prepare(p) // checksums of TCP/UDP/ICMPv6 are then really verified
			}
			ref[i][k] = signature(p)
			done(p)
		}
	}
	s := coop.New(c)
	// a scheduling point in front of every mutex acquisition of the
	// (instrumented) packages, including ones a change has introduced
	verifhook.Hook = s.AnyLockHook
	defer func() { verifhook.Hook = nil }()
	nw := 2 + c.Weighted(2, 2, 1)
	// (few slots: many readers of the same packet; many: many packets in flight)
	slots := make([]*shared, 1+c.Draw(6))
	for i := range slots {
		slots[i] = &shared{}
	}
	type op struct{ kind, a, b int }
	plans := make([][]op, nw)
	for w := range plans {
		for k := 3 + c.Draw(8); k > 0; k-- {
			switch c.Weighted(4, 2, 5) {
			case 0:
				plans[w] = append(plans[w], op{0, c.Draw(len(inputs)), c.Draw(10)})
			case 1:
				plans[w] = append(plans[w], op{1, c.Draw(len(inputs)), c.Draw(len(slots)) + 100*c.Draw(2)})
			case 2:
				plans[w] = append(plans[w], op{2, c.Draw(len(slots)), c.Draw(5)})
			}
		}
	}
	c.Ev("plan", int64(len(inputs)), int64(nw))
	type failure struct{ clause, kind, where, detail string }
	fails := make([]*failure, nw)
	seen := make([][]obs, nw) // cold mode: what each worker observed, compared after the run
	prepped := make([]bool, len(slots))
	for wi := 0; wi < nw; wi++ {
		wi := wi
		s.Go(fmt.Sprintf("w%d", wi), func(w *coop.W) {
			fail := func(cl, k, wh, f string, a ...any) {
				if fails[wi] == nil {
					fails[wi] = &failure{cl, k, wh, fmt.Sprintf(f, a...)}
				}
			}
			for _, o := range plans[wi] {
				w.Yield(100)
				switch o.kind {
				case 0: // decode and compare with the quiet-state reference
					p := gopacket.NewPacket(inputs[o.a], firsts[o.a], opts(o.b%5))
					if o.b >= 5 {
						prepare(p)
					}
					w.Rec("decode", int64(o.a), int64(o.b), 0, "", nil)
					got := signature(p)
					done(p)
					if cold {
						seen[wi] = append(seen[wi], obs{0, o.a, o.b, got})
						continue
					}
					if got != ref[o.a][o.b] {
						fail("deterministic", "decode-differs", "NewPacket", "input %d options %d decoded differently after other packets had been decoded / while other goroutines decode:\n got %q\nwant %q", o.a, o.b, got, ref[o.a][o.b])
					}
				case 1: // decode eagerly and publish for concurrent readers
					// each slot has one publisher (a second one would race on the slot itself)
					prep := o.b >= 100
					o.b %= 100
					if o.b%nw != wi || slots[o.b].p.Load() != nil {
						continue
					}
					p := gopacket.NewPacket(inputs[o.a], firsts[o.a], gopacket.Default)
					if prep {
						// the publisher's own preparation, finished before the hand-over
						prepare(p)
					}
					sh := slots[o.b]
					sh.in = o.a
					if cold {
						prepped[o.b] = prep
						w.Rec("publish", int64(o.a), int64(o.b), 0, "", nil)
						sh.p.Store(&p)
						continue
					}
					// The expected answers come from a twin decoded from the same bytes
					// (half of the time), so that the packet handed over is untouched:
					// anything an accessor computes on first use and keeps in the packet
					// then happens among the concurrent readers, not here.
					twin := p
					if o.a%2 == 0 {
						twin = gopacket.NewPacket(inputs[o.a], firsts[o.a], gopacket.Default)
						if prep {
							prepare(twin)
						}
					}
					for k := 0; k < 5; k++ {
						sh.want[k] = readAll(twin, k)
					}
					w.Rec("publish", int64(o.a), int64(o.b), 0, "", nil)
					sh.p.Store(&p)
				case 2: // read a published packet
					pp := slots[o.a].p.Load()
					if pp == nil {
						continue
					}
					w.Rec("read", int64(o.a), int64(o.b), 0, "", nil)
					if cold {
						seen[wi] = append(seen[wi], obs{2, o.a, o.b, readAll(*pp, o.b)})
						continue
					}
					if got := readAll(*pp, o.b); got != slots[o.a].want[o.b] {
						fail("shareable", "reader-disagrees", "accessor", "reader of shared packet (input %d) got a different answer from accessor group %d than its publisher:\n got %q\nwant %q", slots[o.a].in, o.b, got, slots[o.a].want[o.b])
					}
				}
			}
		})
	}
	s.Run()
	for _, e := range s.Merged() {
		c.Ev("w:"+e.Kind, int64(e.Step), int64(e.W), e.A, e.B)
	}
	c.State(s.TraceHash())
	for _, f := range fails {
		if f != nil {
			c.Fail(f.clause, f.kind, f.where, "%s", f.detail)
		}
	}
	if cold {
		// reference taken now, in a quiet state, after the concurrent first uses
		mkRef()
		for wi := range seen {
			for _, o := range seen[wi] {
				switch o.kind {
				case 0:
					if o.got != ref[o.a][o.b] {
						c.Fail("deterministic", "first-use-differs", "NewPacket", "worker %d, among the first users in this process, decoded/rendered input %d (options %d) differently from a decode of the same bytes after the run:\n got %q\nwant %q", wi, o.a, o.b, o.got, ref[o.a][o.b])
					}
				case 2:
					in := slots[o.a].in
					twin := gopacket.NewPacket(pristine[in], firsts[in], gopacket.Default)
					if prepped[o.a] {
						prepare(twin)
					}
					if want := readAll(twin, o.b); o.got != want {
						c.Fail("shareable", "first-use-differs", "accessor", "worker %d, among the first readers in this process, got a different answer from accessor group %d of the shared packet (input %d) than a reader after the run:\n got %q\nwant %q", wi, o.b, in, o.got, want)
					}
				}
			}
		}
		c.Probe("cold_process_run")
	}
	for i := range inputs {
		if !bytes.Equal(inputs[i], pristine[i]) {
			c.Fail("no-side-effect", "input-buffer-written", "NewPacket", "input %d was modified by decoding", i)
		}
	}
}

// ---- C04 ----

type owned struct {
	p      gopacket.Packet
	sig    string
	pooled bool
	nocopy bool
	in     int
	live   bool
	bulk   bool // one of a row of pooled decodes: examined when given back
	// untouched: a lazily decoded packet nobody has looked at yet; it is first
	// looked at after the producer has reused its input buffer
	untouched bool
}

// base is the address of the first byte of the packet's data (0 for a packet
// without bytes: nothing there to share).
func base(p gopacket.Packet) uintptr {
	d := p.Data()
	if cap(d) == 0 {
		return 0
	}
	return uintptr(unsafe.Pointer(unsafe.SliceData(d[:cap(d)])))
}

func simC04(c *sim.Ctx) {
	inputs, firsts := corpus(c, true)
	// lengths around the pool block
	for _, n := range []int{0, 1, 1499, 1500, 1501, 3000} {
		if c.Chance(300) {
			inputs = append(inputs, eth(0x0800, ip4(17, udp(7, 9, payload(n, n), true), true), false)[:n])
			firsts = append(firsts, layers.LayerTypeEthernet)
		}
	}
	orig := make([][]byte, len(inputs))
	refsig := make([]string, len(inputs))
	for i, b := range inputs {
		orig[i] = append([]byte(nil), b...)
		refsig[i] = signature(gopacket.NewPacket(orig[i], firsts[i], gopacket.Default))
	}
	s := coop.New(c)
	verifhook.Hook = s.AnyLockHook
	defer func() { verifhook.Hook = nil }()
	nw := 2 + c.Weighted(2, 2, 1)
	type op struct{ kind, a, b int }
	plans := make([][]op, nw)
	for w := range plans {
		for k := 4 + c.Draw(10); k > 0; k-- {
			plans[w] = append(plans[w], op{c.Weighted(10, 6, 4, 4, 1), c.Draw(len(inputs)), c.Draw(5)})
		}
	}
	gcRun := c.Chance(125)
	if c.Chance(50) {
		// a large working set: one goroutine holds many pooled packets at once,
		// gives them all back and decodes as many again (whatever free list,
		// ring or cache sits behind the pool gets filled and drained)
		n := 20 + c.Draw(200)
		plans[0] = append(append([]op{{5, c.Draw(len(inputs)), n}}, plans[0]...), op{6, 0, 0}, op{5, c.Draw(len(inputs)), n + c.Draw(3)})
		if c.Chance(300) {
			plans[0] = append(plans[0], op{6, 0, 0}, op{5, c.Draw(len(inputs)), n})
		}
		c.Fault("large_pooled_working_set")
	}
	// mailboxes for handing packets to another worker (one real atomic each)
	mail := make([]atomic.Pointer[owned], nw)
	type failure struct{ clause, kind, where, detail string }
	fails := make([]*failure, nw)
	// per worker: packets it owns; the controller never touches them during the run
	own := make([][]*owned, nw)
	overwritten := make([]atomic.Bool, len(inputs))
	for wi := 0; wi < nw; wi++ {
		wi := wi
		s.Go(fmt.Sprintf("w%d", wi), func(w *coop.W) {
			fail := func(cl, k, wh, f string, a ...any) {
				if fails[wi] == nil {
					fails[wi] = &failure{cl, k, wh, fmt.Sprintf(f, a...)}
				}
			}
			check := func(o *owned, when string) {
				if o.nocopy && overwritten[o.in].Load() {
					return // the caller broke NoCopy's contract on purpose
				}
				if got := signature(o.p); got != o.sig {
					fail("isolation", "packet-changed", "NewPacket", "a packet decoded from input %d (pooled %v) changed %s:\n got %q\nwant %q", o.in, o.pooled, when, got, o.sig)
				}
			}
			for _, o := range plans[wi] {
				w.Yield(100)
				// every input buffer has one owner: only that goroutine decodes
				// from it and overwrites it (NewPacket is synchronous)
				o.a = (o.a/nw)*nw + wi
				if o.a >= len(inputs) {
					o.a = wi
				}
				switch o.kind {
				case 0: // decode
					var do gopacket.DecodeOptions
					switch o.b {
					case 1:
						do = gopacket.NoCopy
					case 2:
						do.Pool = true
					case 3:
						do.Pool, do.Lazy = true, true
					case 4:
						do.Lazy = true
					}
					if do.NoCopy && overwritten[o.a].Load() {
						continue
					}
					in := inputs[o.a]
					p := gopacket.NewPacket(in, firsts[o.a], do)
					ow := &owned{p: p, in: o.a, live: true, nocopy: do.NoCopy}
					_, ow.pooled = p.(gopacket.PooledPacket)
					if do.Lazy && !do.NoCopy && len(in) > 0 && !overwritten[o.a].Load() && o.a%2 == 1 {
						// A lazily decoded packet that nobody has looked at yet: whenever it
						// is first looked at it has to render like the default decode of the
						// bytes it was given - also if the producer has reused its buffer
						// in between.
						ow.sig, ow.untouched = refsig[o.a], true
						w.Rec("decode-untouched", int64(o.a), int64(o.b), b2i(ow.pooled), "", nil)
						own[wi] = append(own[wi], ow)
						continue
					}
					ow.sig = signature(p)
					w.Rec("decode", int64(o.a), int64(o.b), b2i(ow.pooled), "", nil)
					// (lazy decoding of an empty input is outside the lazy/eager equivalence)
					if !overwritten[o.a].Load() && ow.sig != refsig[o.a] && !(do.Lazy && len(in) == 0) {
						fail("same-result", "options-change-result", "NewPacket", "input %d (%d bytes) decoded with options %d differs from the default decode:\n got %q\nwant %q", o.a, len(in), o.b, ow.sig, refsig[o.a])
					}
					// (which packets come back pool-backed - how large a block is,
					// whether oversized ones are wrapped too - is the implementation's
					// business: whatever says it is a PooledPacket gets disposed once,
					// and no two undisposed ones may share memory)
					// no two live pooled packets share backing memory
					if ow.pooled {
						for _, q := range own[wi] {
							if q.live && q.pooled && base(p) != 0 && base(q.p) == base(p) {
								fail("pool", "shared-backing-memory", "NewPacket", "two undisposed pooled packets (inputs %d and %d) share one pool block", q.in, o.a)
							}
						}
					}
					own[wi] = append(own[wi], ow)
				case 5: // many pooled decodes in a row, all kept
					if overwritten[o.a].Load() {
						continue
					}
					// (one scheduling point for the whole row: it is about the history
					// of the pool, and hundreds of hand-overs per run cost too much)
					w.Quiet = true
					for k := 0; k < o.b; k++ {
						p := gopacket.NewPacket(inputs[o.a], firsts[o.a], gopacket.DecodeOptions{Pool: true})
						ow := &owned{p: p, in: o.a, live: true, bulk: true}
						_, ow.pooled = p.(gopacket.PooledPacket)
						ow.sig = signature(p)
						if ow.sig != refsig[o.a] {
							fail("same-result", "options-change-result", "NewPacket", "input %d (%d bytes) decoded with Pool as number %d of a row differs from the default decode:\n got %q\nwant %q", o.a, len(inputs[o.a]), k, ow.sig, refsig[o.a])
						}
						if ow.pooled {
							for _, q := range own[wi] {
								if q.live && q.pooled && base(p) != 0 && base(q.p) == base(p) {
									fail("pool", "shared-backing-memory", "NewPacket", "two undisposed pooled packets (inputs %d and %d) share one pool block", q.in, o.a)
								}
							}
						}
						own[wi] = append(own[wi], ow)
					}
					w.Quiet = false
					w.Rec("decode-row", int64(o.a), int64(o.b), 0, "", nil)
				case 6: // give back every pooled packet of the row
					w.Quiet = true
					for _, q := range own[wi] {
						if q.live && q.pooled && q.bulk {
							check(q, "before its own disposal")
							q.live = false
							q.p.(gopacket.PooledPacket).Dispose()
						}
					}
					w.Quiet = false
					w.Rec("dispose-row", 0, 0, 0, "", nil)
				case 1: // dispose one of my pooled packets, exactly once
					for _, q := range own[wi] {
						if q.live && q.pooled {
							check(q, "before its own disposal")
							q.live = false
							q.p.(gopacket.PooledPacket).Dispose()
							w.Rec("dispose", int64(q.in), 0, 0, "", nil)
							break
						}
					}
				case 2: // the producer reuses its buffer
					if len(inputs[o.a]) == 0 {
						continue
					}
					overwritten[o.a].Store(true)
					for i := range inputs[o.a] {
						inputs[o.a][i] ^= 0xFF
					}
					w.Rec("overwrite", int64(o.a), 0, 0, "", nil)
					for _, q := range own[wi] {
						if q.live && (!q.untouched || q.in == o.a) {
							q.untouched = false
							check(q, "after the producer overwrote input "+fmt.Sprint(o.a))
						}
					}
				case 4: // a garbage collection, and time for finalizers to run
					if !gcRun {
						// (a collection costs as much as ten runs: one run in eight has them)
						continue
					}
					runtime.GC()
					for k := 0; k < 4; k++ {
						runtime.Gosched()
					}
					w.Rec("collect", 0, 0, 0, "", nil)
				case 3: // hand a packet over / take one
					if got := mail[wi].Swap(nil); got != nil {
						own[wi] = append(own[wi], got)
						check(got, "after being handed to another goroutine")
						w.Rec("take", int64(got.in), 0, 0, "", nil)
					} else if len(own[wi]) > 0 {
						q := own[wi][len(own[wi])-1]
						to := (wi + 1 + o.b%(nw-1)) % nw
						// (a NoCopy packet stays with the goroutine that owns its input buffer)
						if q.live && !q.nocopy && mail[to].CompareAndSwap(nil, q) {
							own[wi] = own[wi][:len(own[wi])-1]
							w.Rec("give", int64(q.in), int64(to), 0, "", nil)
						}
					}
				}
				for _, q := range own[wi] {
					// (the packets of a row are looked at when they are given back)
					if q.live && !q.bulk && !q.untouched {
						check(q, "while other goroutines decode and dispose")
					}
				}
			}
		})
	}
	s.Run()
	for _, e := range s.Merged() {
		c.Ev("w:"+e.Kind, int64(e.Step), int64(e.W), e.A, e.B, e.C)
	}
	c.State(s.TraceHash())
	for _, f := range fails {
		if f != nil {
			c.Fail(f.clause, f.kind, f.where, "%s", f.detail)
		}
	}
	// across workers: live pooled packets never share a block
	var live []*owned
	for wi := range own {
		for _, q := range own[wi] {
			if q.live && q.pooled {
				live = append(live, q)
			}
		}
	}
	for wi := range mail {
		if q := mail[wi].Load(); q != nil && q.live && q.pooled {
			live = append(live, q)
		}
	}
	for i := range live {
		for j := i + 1; j < len(live); j++ {
			if base(live[i].p) != 0 && base(live[i].p) == base(live[j].p) {
				c.Fail("pool", "shared-backing-memory", "NewPacket", "two undisposed pooled packets (inputs %d and %d) share one pool block", live[i].in, live[j].in)
			}
		}
	}
	if len(live) >= 2 {
		c.Probe("two_pooled_packets_live")
	}
	for _, q := range live {
		if q.bulk {
			if got := signature(q.p); got != q.sig {
				c.Fail("isolation", "packet-changed", "NewPacket", "a packet decoded from input %d (pooled) changed while it was held undisposed:\n got %q\nwant %q", q.in, got, q.sig)
			}
		}
		q.p.(gopacket.PooledPacket).Dispose()
	}
}

func b2i(b bool) int64 {
	if b {
		return 1
	}
	return 0
}

var sims = map[string]sim.SimFunc{"c02": simC02, "c02cold": simC02cold, "c04": simC04}

func TestChild(t *testing.T) {
	if !sim.ChildMain(sims) {
		t.Skip("not a child")
	}
}

func TestMain(m *testing.M) { os.Exit(m.Run()) }

// Package tcpasm hosts the simulations of package tcpassembly
// (C10, C11 classic assembler part, C12 classic assembler part).
package tcpasm

import (
	"os"
	"testing"
	"time"

	"github.com/gopacket/gopacket"
	"github.com/gopacket/gopacket/layers"
	"github.com/gopacket/gopacket/tcpassembly"

	"verif/sim"
	"verif/sim/tcpsim"
)

// adapter presents tcpassembly to the shared simulation.
type adapter struct {
	h    *tcpsim.Harness
	pool *tcpassembly.StreamPool
	a    *tcpassembly.Assembler
}

type stream struct {
	h *tcpsim.Harness
	s *tcpsim.Stream
}

func (st *stream) Reassembled(rs []tcpassembly.Reassembly) {
	st.h.Enter(st.s)
	defer st.h.Leave(st.s)
	d := st.h.DirOf(st.s, 0)
	for _, r := range rs {
		st.h.Deliver(st.s, d, r.Skip, r.Bytes, r.Start, r.End, r.Seen)
	}
}

func (st *stream) ReassemblyComplete() {
	st.h.Enter(st.s)
	defer st.h.Leave(st.s)
	st.h.Complete(st.s, true)
}

type factory struct{ h *tcpsim.Harness }

func (f *factory) New(n, t gopacket.Flow) tcpassembly.Stream {
	return &stream{f.h, f.h.NewStream(n, t)}
}

func mk(h *tcpsim.Harness) tcpsim.Assembler {
	ad := &adapter{h: h}
	ad.pool = tcpassembly.NewStreamPool(&factory{h})
	ad.a = tcpassembly.NewAssembler(ad.pool)
	return ad
}

func (ad *adapter) Assemble(n gopacket.Flow, t *layers.TCP, ts time.Time) {
	ad.a.AssembleWithTimestamp(n, t, ts)
}
func (ad *adapter) FlushT(t time.Time) (int, int) {
	return ad.a.FlushWithOptions(tcpassembly.FlushOptions{T: t, CloseAll: false})
}
func (ad *adapter) FlushClose(t time.Time) (int, int) { return ad.a.FlushOlderThan(t) }
func (ad *adapter) FlushAll() int                     { return ad.a.FlushAll() }
func (ad *adapter) SetLimits(pc, tot int) {
	ad.a.MaxBufferedPagesPerConnection, ad.a.MaxBufferedPagesTotal = pc, tot
}
func (ad *adapter) PagesUsed() int                      { return ad.a.VerifPagesUsed() }
func (ad *adapter) PoolConns() int                      { n, _, _ := ad.pool.VerifStats(); return n }
func (ad *adapter) Queued() (int, int, time.Time, bool) { return ad.pool.VerifQueued() }

func init() {
	// the order in which a flush visits connections is map order in the
	// shipped code; the hook makes it sorted (engine C) so runs replay
	tcpassembly.VerifOrder = func(keys []string) []int {
		p := make([]int, len(keys))
		for i := range p {
			p[i] = i
		}
		return p
	}
}

var sims = map[string]sim.SimFunc{
	"c10": func(c *sim.Ctx) {
		tcpsim.Run(c, tcpsim.RunCfg{Strong: true, Gen: tcpsim.GenCfg{MaxConns: 3, AllowNoEnd: true, AllowRST: true}}, mk)
	},
	"c11t": func(c *sim.Ctx) {
		tcpsim.Run(c, tcpsim.RunCfg{Lifecycle: true, Gen: tcpsim.GenCfg{MaxConns: 8, AllowNoEnd: true, AllowRST: true, CloseFlush: true, Reopen: true, BackJumps: true, Short: true}}, mk)
	},
}

func TestChild(t *testing.T) {
	if !sim.ChildMain(sims) {
		t.Skip("not a child")
	}
}

func TestMain(m *testing.M) { os.Exit(m.Run()) }

// Package tcpasm hosts the simulations of package tcpassembly
// (C10, C11 classic assembler part, C12 classic assembler part).
package tcpasm

import (
	"os"
	"sync"
	"testing"
	"time"

	"github.com/gopacket/gopacket"
	"github.com/gopacket/gopacket/layers"
	"github.com/gopacket/gopacket/tcpassembly"

	"verif/sim"
	"verif/sim/bubble"
	"verif/sim/tcpsim"
)

// adapter presents tcpassembly to the shared simulation.
type adapter struct {
	h     *tcpsim.Harness
	pool  *tcpassembly.StreamPool
	a     *tcpassembly.Assembler
	clock bool // packets are fed with Assemble(), which reads the (simulated) clock itself
}

type stream struct {
	h *tcpsim.Harness
	s *tcpsim.Stream
}

func (st *stream) Reassembled(rs []tcpassembly.Reassembly) {
	st.h.Enter(st.s)
	defer st.h.Leave(st.s)
	d := st.h.DirOf(st.s, 0)
	for _, r := range rs {
		st.h.Deliver(st.s, d, r.Skip, r.Bytes, r.Start, r.End, r.Seen)
	}
}

func (st *stream) ReassemblyComplete() {
	st.h.Enter(st.s)
	defer st.h.Leave(st.s)
	st.h.Complete(st.s, true)
}

type factory struct{ h *tcpsim.Harness }

func (f *factory) New(n, t gopacket.Flow) tcpassembly.Stream {
	return &stream{f.h, f.h.NewStream(n, t)}
}

func mk(h *tcpsim.Harness) tcpsim.Assembler {
	ad := &adapter{h: h}
	ad.pool = tcpassembly.NewStreamPool(&factory{h})
	ad.a = tcpassembly.NewAssembler(ad.pool)
	return ad
}

func (ad *adapter) Assemble(n gopacket.Flow, t *layers.TCP, ts time.Time) {
	if ad.clock {
		// Assemble stamps the packet with time.Now(): inside the bubble that is
		// the simulated clock, advanced here to the packet's capture time
		if d := time.Until(ts); d > 0 {
			time.Sleep(d)
		}
		ad.a.Assemble(n, t)
		return
	}
	ad.a.AssembleWithTimestamp(n, t, ts)
}
func (ad *adapter) FlushT(t time.Time) (int, int) {
	return ad.a.FlushWithOptions(tcpassembly.FlushOptions{T: t, CloseAll: false})
}
func (ad *adapter) FlushClose(t time.Time) (int, int) { return ad.a.FlushOlderThan(t) }
func (ad *adapter) FlushAll() int                     { return ad.a.FlushAll() }
func (ad *adapter) SetLimits(pc, tot int) {
	ad.a.MaxBufferedPagesPerConnection, ad.a.MaxBufferedPagesTotal = pc, tot
}
func (ad *adapter) PagesUsed() int                      { return ad.a.VerifPagesUsed() }
func (ad *adapter) PoolConns() int                      { n, _, _ := ad.pool.VerifStats(); return n }
func (ad *adapter) Queued() (int, int, time.Time, bool) { return ad.pool.VerifQueued() }

func init() {
	// the order in which a flush visits connections is map order in the
	// shipped code; the hook makes it sorted (engine C) so runs replay
	tcpassembly.VerifOrder = func(keys []string) []int {
		p := make([]int, len(keys))
		for i := range p {
			p[i] = i
		}
		return p
	}
}

// ---- C12: several assemblers on one pool under the cooperative scheduler ----

type stream12 struct {
	h *tcpsim.C12
	s *tcpsim.C12Stream
}

func (st *stream12) Reassembled(rs []tcpassembly.Reassembly) {
	for _, r := range rs {
		st.h.Deliver(st.s, 0, r.Skip, r.Bytes, r.Start, r.End)
	}
}
func (st *stream12) ReassemblyComplete() { st.h.Complete(st.s) }

type factory12 struct{ h *tcpsim.C12 }

func (f *factory12) New(n, t gopacket.Flow) tcpassembly.Stream {
	return &stream12{f.h, f.h.NewStream(n, t)}
}

type asm12 struct{ a *tcpassembly.Assembler }

func (a asm12) Assemble(n gopacket.Flow, t *layers.TCP, ts time.Time) {
	a.a.AssembleWithTimestamp(n, t, ts)
}
func (a asm12) FlushT(t time.Time) (int, int) {
	return a.a.FlushWithOptions(tcpassembly.FlushOptions{T: t})
}
func (a asm12) FlushAll() int                     { return a.a.FlushAll() }
func (a asm12) FlushClose(t time.Time) (int, int) { return a.a.FlushOlderThan(t) }

func c12pkg() *tcpsim.C12Pkg {
	var pool *tcpassembly.StreamPool
	return &tcpsim.C12Pkg{
		SetHook:      func(f func(int, *sync.Mutex, *sync.RWMutex, bool)) { tcpassembly.VerifYield = f },
		SetOrder:     func(f func([]string) []int) { tcpassembly.VerifOrder = f },
		NewPool:      func(h *tcpsim.C12) { pool = tcpassembly.NewStreamPool(&factory12{h}) },
		NewAssembler: func() tcpsim.C12Asm { return asm12{tcpassembly.NewAssembler(pool)} },
		PoolConns:    func() int { n, _, _ := pool.VerifStats(); return n },
	}
}

func init() { tcpsim.PageBytes = tcpassembly.VerifPageBytes }

var sims = map[string]sim.SimFunc{
	"c12t": func(c *sim.Ctx) { tcpsim.RunC12(c, c12pkg()) },
	"c10": func(c *sim.Ctx) {
		tcpsim.Run(c, tcpsim.RunCfg{Strong: true, Gen: tcpsim.GenCfg{MaxConns: 3, AllowNoEnd: true, AllowRST: true, SynData: true}}, mk)
	},
	// the same simulation through Assemble(), which reads the clock itself: run
	// inside a synctest bubble whose fake clock the harness advances
	"c10clock": func(c *sim.Ctx) {
		bubble.Run(c, func(b *bubble.B) {
			old := tcpsim.Base
			tcpsim.Base = time.Now()
			defer func() { tcpsim.Base = old }()
			tcpsim.Run(c, tcpsim.RunCfg{Strong: true, Gen: tcpsim.GenCfg{MaxConns: 3, AllowNoEnd: true, AllowRST: true, SynData: true}}, func(h *tcpsim.Harness) tcpsim.Assembler {
				ad := mk(h).(*adapter)
				ad.clock = true
				return ad
			})
			c.Probe("assembled_on_simulated_clock")
		})
	},
	"c11t": func(c *sim.Ctx) {
		tcpsim.Run(c, tcpsim.RunCfg{Lifecycle: true, Gen: tcpsim.GenCfg{MaxConns: 8, AllowNoEnd: true, AllowRST: true, CloseFlush: true, Reopen: true, BackJumps: true, Short: true, SynData: true, Wide: true, Drift: true}}, mk)
	},
}

func TestChild(t *testing.T) {
	bubble.T = t
	if !sim.ChildMain(sims) {
		t.Skip("not a child")
	}
}

func TestMain(m *testing.M) { os.Exit(m.Run()) }

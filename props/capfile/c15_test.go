package capfile

import (
	"bytes"
	"compress/gzip"
	"encoding/binary"
	"errors"
	"fmt"
	"io"
	"runtime"
	"runtime/metrics"
	"strings"
	"time"

	"github.com/gopacket/gopacket"
	"github.com/gopacket/gopacket/pcapgo"

	"verif/sim"
	"verif/sim/disk"
)

// ---- structure-aware file builder: every field is a named mutation target ----

type field struct {
	off, size int
	name      string
}

type fb struct {
	b      []byte
	fields []field
	be     bool
}

type order interface {
	binary.ByteOrder
	binary.AppendByteOrder
}

func (f *fb) order() order {
	if f.be {
		return binary.BigEndian
	}
	return binary.LittleEndian
}
func (f *fb) u16(name string, v uint16) {
	f.fields = append(f.fields, field{len(f.b), 2, name})
	f.b = f.order().AppendUint16(f.b, v)
}
func (f *fb) u32(name string, v uint32) int {
	f.fields = append(f.fields, field{len(f.b), 4, name})
	f.b = f.order().AppendUint32(f.b, v)
	return len(f.b) - 4
}
func (f *fb) raw(p []byte) { f.b = append(f.b, p...) }
func (f *fb) pad4() {
	for len(f.b)%4 != 0 {
		f.b = append(f.b, 0)
	}
}
func (f *fb) patch32(off int, v uint32) { f.order().PutUint32(f.b[off:], v) }

// option writes one pcapng option.
func (f *fb) option(block string, code uint16, val []byte) {
	f.u16(block+".opt.code", code)
	f.u16(fmt.Sprintf("%s.opt%d.len", block, code), uint16(len(val)))
	if n := len(val); n >= 1 && n <= 8 {
		// short option values (resolution, offsets, counters, flags) are mutation targets too
		f.fields = append(f.fields, field{len(f.b), n, fmt.Sprintf("%s.opt%d.val", block, code)})
	}
	f.raw(val)
	f.pad4()
}

// block wraps body() in a pcapng block with both length fields.
func (f *fb) block(name string, typ uint32, body func()) {
	start := len(f.b)
	f.u32(name+".type", typ)
	lo := f.u32(name+".len", 0)
	body()
	f.pad4()
	total := uint32(len(f.b) - start + 4)
	f.patch32(lo, total)
	f.u32(name+".len2", total)
}

func u64b(o order, v uint64) []byte { return o.AppendUint64(nil, v) }
func u32b(o order, v uint32) []byte { return o.AppendUint32(nil, v) }

func buildPcap(c *sim.Ctx) *fb {
	f := &fb{be: c.Chance(250)}
	magic := uint32(0xA1B2C3D4)
	if c.Draw(2) == 1 {
		magic = 0xA1B23C4D
	}
	f.u32("pcap.magic", magic)
	f.u16("pcap.vmajor", 2)
	f.u16("pcap.vminor", 4)
	f.u32("pcap.thiszone", 0)
	f.u32("pcap.sigfigs", 0)
	f.u32("pcap.snaplen", uint32(256+c.Draw(4000)))
	f.u32("pcap.linktype", 1)
	for i, n := 0, c.Draw(6); i < n; i++ {
		l := c.Draw(200)
		f.u32("rec.sec", uint32(1_600_000_000+i))
		f.u32("rec.usec", uint32(c.Draw(1_000_000)))
		f.u32("rec.caplen", uint32(l))
		f.u32("rec.len", uint32(l+c.Draw(2)*c.Draw(100)))
		f.raw(fillBytes(uint64(i+1), l))
	}
	return f
}

func buildSnoop(c *sim.Ctx) *fb {
	f := &fb{be: true}
	f.u32("snoop.magic1", 0x736e6f6f)
	f.u32("snoop.magic2", 0x70000000)
	f.u32("snoop.version", 2)
	f.u32("snoop.linktype", []uint32{0, 2, 4, 5, 8, 9}[c.Draw(6)])
	for i, n := 0, c.Draw(6); i < n; i++ {
		l := c.Draw(200)
		pad := (4 - l%4) % 4
		f.u32("srec.origlen", uint32(l+c.Draw(2)*c.Draw(100)))
		f.u32("srec.inclen", uint32(l))
		f.u32("srec.reclen", uint32(24+l+pad))
		f.u32("srec.drops", 0)
		f.u32("srec.sec", uint32(1_600_000_000+i))
		f.u32("srec.usec", uint32(c.Draw(1_000_000)))
		f.raw(fillBytes(uint64(i+1), l))
		f.raw(make([]byte, pad))
	}
	return f
}

func buildNg(c *sim.Ctx) *fb {
	f := &fb{be: c.Chance(250)}
	o := f.order()
	shb := func() {
		f.block("shb", 0x0A0D0D0A, func() {
			f.u32("shb.bom", 0x1A2B3C4D)
			f.u16("shb.vmajor", 1)
			f.u16("shb.vminor", 0)
			f.u32("shb.seclen_hi", 0xFFFFFFFF)
			f.u32("shb.seclen_lo", 0xFFFFFFFF)
			if c.Chance(500) {
				f.option("shb", 2, []byte("hw"))
				f.option("shb", 1, []byte(drawStr(c, 3)))
				f.option("shb", 0, nil)
			}
		})
	}
	idb := func(i int) {
		f.block("idb", 1, func() {
			f.u16("idb.linktype", 1)
			f.u16("idb.reserved", 0)
			f.u32("idb.snaplen", []uint32{0, 0, 2000, 65535}[c.Draw(4)])
			if c.Chance(700) {
				f.option("idb", 2, []byte(drawStr(c, i)))
				if c.Chance(500) {
					f.option("idb", 9, []byte{[]byte{6, 9, 3, 0x80 | 10, 0}[c.Draw(5)]})
				}
				if c.Chance(300) {
					f.option("idb", 14, u64b(o, uint64(c.Draw(1000))))
				}
				if c.Chance(300) {
					f.option("idb", 11, append([]byte{0}, drawStr(c, 5)...))
				}
				if c.Chance(300) {
					f.option("idb", 12, []byte(drawStr(c, 6)))
				}
				f.option("idb", 0, nil)
			}
		})
	}
	shb()
	nif := 1 + c.Draw(2)
	for i := 0; i < nif; i++ {
		idb(i)
	}
	for i, n := 0, c.Draw(7); i < n; i++ {
		l := c.Draw(120)
		switch c.Weighted(6, 1, 1, 1, 1, 1, 1, 1) {
		case 0: // enhanced packet
			f.block("epb", 6, func() {
				f.u32("epb.ifid", uint32(c.Draw(nif)))
				f.u32("epb.ts_hi", 0x0005A0B1)
				f.u32("epb.ts_lo", uint32(c.Draw(1<<30)))
				f.u32("epb.caplen", uint32(l))
				f.u32("epb.len", uint32(l+c.Draw(2)*c.Draw(50)))
				f.raw(fillBytes(uint64(i+1), l))
				f.pad4()
				if c.Chance(500) {
					f.option("epb", 1, []byte(drawStr(c, i)))
					f.option("epb", 2, u32b(binary.LittleEndian, uint32(c.Draw(1<<16))))
					if c.Chance(500) {
						f.option("epb", 3, append([]byte{2}, fillBytes(9, 4)...))
						f.option("epb", 4, u64b(binary.LittleEndian, 7))
						f.option("epb", 5, u64b(binary.LittleEndian, 8))
						f.option("epb", 6, u32b(binary.LittleEndian, 9))
						f.option("epb", 7, append([]byte{1}, fillBytes(10, 8)...))
					}
					f.option("epb", 0, nil)
				}
			})
		case 1: // simple packet
			f.block("spb", 3, func() {
				f.u32("spb.len", uint32(l))
				f.raw(fillBytes(uint64(i+1), l))
			})
		case 2: // obsolete packet block
			f.block("pb", 2, func() {
				f.u16("pb.ifid", uint16(c.Draw(nif)))
				f.u16("pb.drops", 0)
				f.u32("pb.ts_hi", 0x0005A0B1)
				f.u32("pb.ts_lo", 5)
				f.u32("pb.caplen", uint32(l))
				f.u32("pb.len", uint32(l))
				f.raw(fillBytes(uint64(i+1), l))
			})
		case 3: // name resolution
			f.block("nrb", 4, func() {
				for k := 0; k <= c.Draw(3); k++ {
					name := append([]byte(drawStr(c, k)+"x"), 0)
					switch c.Draw(4) {
					case 0:
						f.u16("nrb.rtype", 1)
						f.u16("nrb.rlen", uint16(4+len(name)))
						f.raw([]byte{10, 0, 0, byte(k)})
					case 1:
						f.u16("nrb.rtype", 2)
						f.u16("nrb.rlen", uint16(16+len(name)))
						f.raw(fillBytes(77, 16))
					case 2:
						f.u16("nrb.rtype", 3)
						f.u16("nrb.rlen", uint16(6+len(name)))
						f.raw(fillBytes(78, 6))
					case 3:
						f.u16("nrb.rtype", 4)
						f.u16("nrb.rlen", uint16(8+len(name)))
						f.raw(fillBytes(79, 8))
					}
					f.raw(name)
					f.pad4()
				}
				f.u16("nrb.rtype", 0)
				f.u16("nrb.rlen", 0)
			})
		case 4: // decryption secrets
			f.block("dsb", 10, func() {
				f.u32("dsb.type", 0x544c534b)
				s := []byte(drawStr(c, i) + "secret")
				f.u32("dsb.slen", uint32(len(s)))
				f.raw(s)
			})
		case 5: // interface statistics
			f.block("isb", 5, func() {
				f.u32("isb.ifid", uint32(c.Draw(nif)))
				f.u32("isb.ts_hi", 0x0005A0B1)
				f.u32("isb.ts_lo", 9)
				if c.Chance(700) {
					f.option("isb", 2, u64b(o, 0x0005A0B100000000))
					f.option("isb", 3, u64b(o, 0x0005A0B100000001))
					f.option("isb", 4, u64b(o, 100))
					f.option("isb", 5, u64b(o, 1))
					f.option("isb", 1, []byte("c"))
					f.option("isb", 0, nil)
				}
			})
		case 6: // unknown block
			f.block("unk", 0x00000BAD, func() { f.raw(fillBytes(5, 4*c.Draw(8))) })
		case 7: // new section
			shb()
			// (sometimes with fewer interfaces than the section before, or none:
			// later packet blocks may then name an interface of the old section)
			n2 := nif
			if c.Chance(400) {
				n2 = c.Draw(nif + 1)
				c.Fault("section_with_fewer_interfaces")
			}
			for k := 0; k < n2; k++ {
				idb(k)
			}
		}
	}
	return f
}

// inflate adds one large amount to the length fields of one record or block
// that have to agree with each other (capture length, original length, record
// or block length, secrets / option length), so that the claim passes the
// reader's consistency checks although the bytes are not there: "a 4 GiB
// capture length in a 400-byte file".
func inflate(c *sim.Ctx, f *fb, data []byte, what int) {
	type group struct{ outer, inner, opts []field }
	var groups []group
	isLen := func(n string) bool {
		switch n {
		case "rec.caplen", "rec.len", "srec.origlen", "srec.inclen", "srec.reclen",
			"epb.caplen", "epb.len", "spb.len", "pb.caplen", "pb.len", "dsb.slen", "nrb.rlen":
			return true
		}
		return false
	}
	isOptLen := func(n string) bool { return strings.HasSuffix(n, ".len") && strings.Contains(n, ".opt") }
	switch what {
	case 1:
		for i := 0; i < len(f.fields); i++ {
			n := f.fields[i].name
			if len(n) > 5 && n[len(n)-5:] == ".type" && i+1 < len(f.fields) && f.fields[i+1].name == n[:len(n)-5]+".len" {
				g := group{outer: []field{f.fields[i+1]}}
				for j := i + 2; j < len(f.fields) && f.fields[j].name != n[:len(n)-5]+".len2"; j++ {
					if isLen(f.fields[j].name) {
						g.inner = append(g.inner, f.fields[j])
					}
					if isOptLen(f.fields[j].name) {
						g.opts = append(g.opts, f.fields[j])
					}
				}
				groups = append(groups, g)
			}
		}
	default:
		first := map[int]string{0: "rec.sec", 2: "srec.origlen"}[what]
		for i := 0; i < len(f.fields); i++ {
			if f.fields[i].name == first {
				var g group
				for j := i; j < len(f.fields) && (j == i || f.fields[j].name != first); j++ {
					if isLen(f.fields[j].name) {
						g.inner = append(g.inner, f.fields[j])
					}
				}
				groups = append(groups, g)
			}
		}
	}
	if len(groups) == 0 {
		return
	}
	g := groups[c.Draw(len(groups))]
	amounts := []uint64{1 << 16, 1 << 20, 1 << 24, 1 << 27, 0x7ffff000, 0xf0000000, 4096}
	d := amounts[c.Draw(len(amounts))]
	add := func(fl field) {
		if fl.off+fl.size > len(data) {
			return
		}
		if fl.size == 4 {
			f.order().PutUint32(data[fl.off:], f.order().Uint32(data[fl.off:])+uint32(d))
		} else if fl.size == 2 {
			f.order().PutUint16(data[fl.off:], f.order().Uint16(data[fl.off:])+uint16(d>>12))
		}
		c.Evs("inflate", fmt.Sprintf("%s@%d+=%#x", fl.name, fl.off, d))
	}
	if len(g.outer) > 0 && len(g.inner) > 0 && c.Chance(250) {
		// the block claims slightly less (or more) than its inner lengths need:
		// e.g. a block that ends right after the packet data, its trailing
		// length not counted
		dd := d
		d = uint64(int64(d) + []int64{-4, -8, -12, 4, -1, -2}[c.Draw(6)])
		for _, fl := range g.outer {
			add(fl)
		}
		d = dd
		c.Fault("block_length_off_by_words")
	} else {
		for _, fl := range g.outer {
			add(fl)
		}
	}
	if len(g.opts) > 0 && (len(g.inner) == 0 || c.Chance(250)) {
		// the block and one of its options claim the extra length
		add(g.opts[c.Draw(len(g.opts))])
		c.Fault("consistent_length_inflation")
		return
	}
	// every inner length by default (the consistent claim); sometimes one is left out
	skip := -1
	if len(g.inner) > 1 && c.Chance(300) {
		skip = c.Draw(len(g.inner))
	}
	for i, fl := range g.inner {
		if i != skip {
			add(fl)
		}
	}
	c.Fault("consistent_length_inflation")
}

// hugeSnaplen decompresses as much of a (possibly damaged) gzip stream as it
// can and reports whether a declared snap length in it exceeds 1 MiB.
func hugeSnaplen(what int, z []byte) bool {
	zr, err := gzip.NewReader(bytes.NewReader(z))
	if err != nil {
		return false
	}
	d, _ := io.ReadAll(io.LimitReader(zr, 1<<20))
	if what == 0 {
		if len(d) < 20 {
			return false
		}
		return binary.LittleEndian.Uint32(d[16:]) > 1<<20 && binary.BigEndian.Uint32(d[16:]) > 1<<20 || binary.LittleEndian.Uint32(d[16:]) > 1<<20 && d[0] != 0xA1 || binary.BigEndian.Uint32(d[16:]) > 1<<20 && d[0] == 0xA1
	}
	// pcapng: walk the blocks loosely in both byte orders
	for _, o := range []binary.ByteOrder{binary.LittleEndian, binary.BigEndian} {
		for off := 0; off+16 <= len(d); {
			typ, l := o.Uint32(d[off:]), int(o.Uint32(d[off+4:]))
			if typ == 1 && o.Uint32(d[off+12:]) > 1<<20 {
				return true
			}
			if l < 12 || off+l > len(d) {
				break
			}
			off += l
		}
	}
	return false
}

// ---- running a reader over a stream ----

type res struct {
	ok       bool
	sum      uint64
	cap, ln  int
	ts       int64
	ifx      int
	eofClass bool
}

type outcome struct {
	openErr    bool
	results    []res
	sections   int // SectionEndCallback calls
	sectionIfs int
}

var allocSample = []metrics.Sample{{Name: "/gc/heap/allocs:bytes"}}

// allocated reads the bytes allocated so far. The runtime/metrics counter is
// cheap but is brought up to date lazily for small objects, so an excess seen
// with it is only a suspicion: the call sequence is then repeated with the
// exact (stop-the-world) counter before anything is reported.
func allocated(precise bool) uint64 {
	if precise {
		var m runtime.MemStats
		runtime.ReadMemStats(&m)
		return m.TotalAlloc
	}
	metrics.Read(allocSample)
	return allocSample[0].Value.Uint64()
}

type suspicion struct{}

// readAll drives one reader over s. what: 0 pcap, 1 pcapng, 2 snoop.
// raise: for the classic pcap reader, the call index before which the caller
// raises the snap length with SetSnaplen (as documented for files whose writer
// did not truncate to its own snap length), and the new value; -1 = never.
type raise struct {
	at int
	to uint32
}

// ngKnobs are the less common ways of using the pcapng reader: the remaining
// reader options, a SkipSection call between two reads, and the accessors for
// what the file said about itself (all of them have to be as safe on hostile
// input as the read calls).
type ngKnobs struct {
	errMismatch bool // NgReaderOptions.ErrorOnMismatchingLinkType
	callback    bool // NgReaderOptions.SectionEndCallback set
	skipAt      int  // call index in front of which SkipSection is called (-1: never)
	accessors   bool // Interface(i), Name(i), SectionInfo, LinkType, Resolution after every call
}

func readAllHostile(c *sim.Ctx, what int, s *disk.Stream, zero bool, present int, declared uint64, mixed bool, precise bool, rs raise, nk ngKnobs) (out outcome, suspect bool) {
	budget := uint64(1<<20) + 4*(uint64(present)+declared)
	var r rdr
	var err error
	a0 := allocated(precise)
	switch what {
	case 0:
		var x *pcapgo.Reader
		x, err = pcapgo.NewReader(s)
		if x != nil {
			// the declared snap length is the one in the (possibly corrupted) header
			budget = uint64(1<<20) + 4*(uint64(present)+uint64(x.Snaplen()))
		}
		r = x
	case 1:
		var x *pcapgo.NgReader
		opt := pcapgo.NgReaderOptions{WantMixedLinkType: mixed, SkipUnknownVersion: mixed, ErrorOnMismatchingLinkType: nk.errMismatch}
		if nk.callback {
			opt.SectionEndCallback = func(ifs []pcapgo.NgInterface, si pcapgo.NgSectionInfo) {
				out.sections++
				out.sectionIfs += len(ifs)
			}
		}
		x, err = pcapgo.NewNgReader(s, opt)
		r = x
	case 2:
		var x *pcapgo.SnoopReader
		x, err = pcapgo.NewSnoopReader(s)
		r = x
		budget = uint64(1<<20) + 4*(uint64(present)+4096)
	}
	if d := allocated(precise) - a0; d > budget {
		if !precise {
			return out, true
		}
		c.Fail("allocation", "out-of-proportion", "constructor", "reader %d constructor allocated %d bytes for a %d-byte stream", what, d, present)
	}
	if err != nil {
		out.openErr = true
		return
	}
	errs := 0
	for calls := 0; calls < 64; calls++ {
		var d []byte
		var ci gopacket.CaptureInfo
		if x, ok := r.(*pcapgo.Reader); ok && calls == rs.at {
			x.SetSnaplen(rs.to)
			budget = uint64(1<<20) + 4*(uint64(present)+uint64(rs.to))
		}
		if ng, ok := r.(*pcapgo.NgReader); ok && calls == nk.skipAt {
			// the rest of the section is of no interest: go on with the next one
			e := ng.SkipSection()
			out.results = append(out.results, res{ok: e == nil, sum: 0x5C195EC, eofClass: e != nil && eofClass(e)})
			if e != nil && (eofClass(e) || errors.Is(e, disk.ErrInjected)) {
				return
			}
		}
		a0 := allocated(precise)
		if zero {
			d, ci, err = r.ZeroCopyReadPacketData()
		} else {
			d, ci, err = r.ReadPacketData()
		}
		if ng, ok := r.(*pcapgo.NgReader); ok {
			// the declared snap length is what the interface blocks read so far say
			// (after a gzip bit flip the harness cannot know it otherwise)
			for i := 0; i < ng.NInterfaces(); i++ {
				if in, e := ng.Interface(i); e == nil && uint64(in.SnapLength) > declared {
					declared = uint64(in.SnapLength)
					budget = uint64(1<<20) + 4*(uint64(present)+declared)
				}
			}
		}
		if ng, ok := r.(*pcapgo.NgReader); ok && nk.accessors {
			// (for their reads of the reader's tables; out-of-range indices included)
			for i := -1; i <= ng.NInterfaces(); i++ {
				ng.Interface(i)
			}
			for i := -1; i <= ng.NNames() && i < 64; i++ {
				ng.Name(i)
			}
			_ = ng.SectionInfo()
			_ = ng.LinkType()
			_ = ng.Resolution()
		}
		if da := allocated(precise) - a0; da > budget {
			if !precise {
				return out, true
			}
			c.Fail("allocation", "out-of-proportion", readerName(what), "one read call allocated %d bytes; stream has %d bytes, declared snap length %d", da, present, declared)
		}
		if err != nil {
			out.results = append(out.results, res{eofClass: eofClass(err)})
			errs++
			if eofClass(err) || errors.Is(err, disk.ErrInjected) || errs >= 3 {
				return
			}
			continue
		}
		errs = 0
		if len(d) != ci.CaptureLength {
			c.Fail("packet-shape", "data-length", readerName(what), "returned %d bytes with CaptureLength %d (Length %d)", len(d), ci.CaptureLength, ci.Length)
		}
		if ci.CaptureLength > ci.Length {
			c.Fail("packet-shape", "caplen-exceeds-length", readerName(what), "CaptureLength %d > Length %d", ci.CaptureLength, ci.Length)
		}
		out.results = append(out.results, res{ok: true, sum: sim.HashString(string(d)), cap: ci.CaptureLength, ln: ci.Length, ts: ci.Timestamp.UnixNano(), ifx: ci.InterfaceIndex})
	}
	return
}

func readerName(what int) string { return []string{"Reader", "NgReader", "SnoopReader"}[what] }

func sameOutcome(a, b outcome) (bool, string) {
	if a.openErr != b.openErr {
		return false, fmt.Sprintf("constructor error %v vs %v", a.openErr, b.openErr)
	}
	if a.sections != b.sections || a.sectionIfs != b.sectionIfs {
		return false, fmt.Sprintf("section end callback called %d times with %d interfaces in all vs %d times with %d", a.sections, a.sectionIfs, b.sections, b.sectionIfs)
	}
	if len(a.results) != len(b.results) {
		return false, fmt.Sprintf("%d calls vs %d calls", len(a.results), len(b.results))
	}
	for i := range a.results {
		if a.results[i] != b.results[i] {
			return false, fmt.Sprintf("call %d: %+v vs %+v", i, a.results[i], b.results[i])
		}
	}
	return true, ""
}

func simC15(c *sim.Ctx) {
	what := c.Weighted(3, 5, 2)
	var f *fb
	switch what {
	case 0:
		f = buildPcap(c)
	case 1:
		f = buildNg(c)
	case 2:
		f = buildSnoop(c)
	}
	data := append([]byte(nil), f.b...)
	var declared uint64
	// corruption
	kind := c.Weighted(2, 5, 1, 1, 2)
	switch kind {
	case 4: // consistent inflation: one record or block claims to be huge, in all the fields that must agree
		inflate(c, f, data, what)
	case 1: // one or two named fields
		for k := 0; k <= c.Weighted(3, 1); k++ {
			fl := f.fields[c.Draw(len(f.fields))]
			cur := uint64(0)
			for i := 0; i < fl.size; i++ {
				cur = cur<<8 | uint64(data[fl.off+i])
			}
			if !f.be {
				cur = 0
				for i := fl.size - 1; i >= 0; i-- {
					cur = cur<<8 | uint64(data[fl.off+i])
				}
			}
			vals := []uint64{0, 1, cur - 1, cur + 1, 3, 7, cur + 4, cur - 4, 0x7fffffff, 0x80000000, 0xffffffff, 0xffff, uint64(c.Draw(1 << 16)), cur ^ 0x100}
			v := vals[c.Draw(len(vals))]
			if c.Chance(300) {
				// bit patterns: 2^k, 2^k-1, 2^k+1, also with the field's top bit set
				// (flag-plus-exponent bytes such as the timestamp resolution)
				k := uint(c.Draw(fl.size * 8))
				v = []uint64{1 << k, 1<<k - 1, 1<<k + 1}[c.Draw(3)]
				if c.Draw(2) == 1 {
					v |= 1 << uint(fl.size*8-1)
				}
			}
			if (fl.name == "pcap.snaplen" || fl.name == "idb.snaplen") && v > 1<<20 {
				v = 1 << 20 // a declared snap length licenses the allocation: keep it affordable
			}
			for i := 0; i < fl.size; i++ {
				sh := uint(8 * i)
				if f.be {
					sh = uint(8 * (fl.size - 1 - i))
				}
				data[fl.off+i] = byte(v >> sh)
			}
			c.Evs("corrupt", fmt.Sprintf("%s@%d=%#x", fl.name, fl.off, v))
			c.Fault("field_corruption")
		}
	case 2: // random bytes after a valid prefix
		keep := 4 + c.Draw(len(data))
		if keep < len(data) {
			tail := fillBytes(uint64(c.Draw(1<<20))+1, len(data)-keep)
			copy(data[keep:], tail)
			c.Fault("random_tail")
		}
	case 3: // truncated
		data = data[:c.Draw(len(data)+1)]
		c.Fault("truncated")
	}
	for _, fl := range f.fields {
		if (fl.name == "pcap.snaplen" || fl.name == "idb.snaplen") && fl.off+4 <= len(data) {
			v := uint64(f.order().Uint32(data[fl.off:]))
			if v > 1<<20 {
				// whatever corrupted it: a declared snap length licenses an
				// allocation of that size, keep it affordable for the harness
				v = 1 << 20
				f.order().PutUint32(data[fl.off:], uint32(v))
			}
			if v > declared {
				declared = v
			}
		}
	}
	present := len(data)
	if what != 2 && c.Chance(150) {
		var zb bytes.Buffer
		zw := gzip.NewWriter(&zb)
		zw.Write(data)
		zw.Close()
		data = zb.Bytes()
		if c.Chance(300) && len(data) > 12 {
			at, bit := 10+c.Draw(len(data)-10), byte(1<<c.Draw(8))
			data[at] ^= bit
			if hugeSnaplen(what, data) {
				// the flip turned a declared snap length into gigabytes, which
				// licenses an allocation the harness cannot afford
				data[at] ^= bit
			} else {
				c.Fault("gzip_bit_flip")
			}
		}
		if c.Chance(200) {
			data = data[:c.Draw(len(data)+1)]
			c.Fault("gzip_truncated")
		}
		c.Fault("gzip_wrapped")
	}
	zero := c.Draw(2) == 1
	mixed := c.Draw(2) == 1
	rs := raise{at: -1}
	if what == 0 && c.Chance(200) {
		rs = raise{at: c.Draw(5), to: uint32(4096 + c.Draw(60000))}
		c.Fault("snaplen_raised_between_reads")
	}
	nk := ngKnobs{skipAt: -1}
	if what == 1 {
		nk.errMismatch, nk.callback, nk.accessors = c.Draw(2) == 1, c.Draw(2) == 1, c.Chance(300)
		if c.Chance(150) {
			nk.skipAt = c.Draw(4)
			c.Fault("skip_section_between_reads")
		}
	}
	c.Ev("input", int64(what), int64(kind), int64(len(data)), b2i(zero), int64(rs.at), int64(rs.to), b2i(nk.errMismatch), b2i(nk.callback), int64(nk.skipAt))
	run := func(s *disk.Stream) (out outcome) {
		s.OnSpin = func(calls int) {
			c.Fail("no-hang", "spins-at-eof", readerName(what), "reader called Read %d times after the stream had reported EOF or an error", calls)
		}
		cfg := *s
		out, suspect := readAllHostile(c, what, s, zero, present, declared, mixed, false, rs, nk)
		if suspect {
			c.Probe("allocation_rechecked_precisely")
			again := cfg
			again.OnSpin = s.OnSpin
			out, _ = readAllHostile(c, what, &again, zero, present, declared, mixed, true, rs, nk)
			*s = again
		}
		return out
	}
	refStream := disk.NewStream(data, 0, 0, 1)
	ref := run(refStream)
	// chunking independence
	for k := 0; k < 2; k++ {
		s := drawStream(c, data)
		got := run(s)
		if ok, why := sameOutcome(ref, got); !ok {
			c.Fail("chunking", "result-depends-on-read-sizes", readerName(what), "stream of %d bytes, mode %d step %d eof-with-data %v: %s", len(data), s.Mode, s.Step, s.EOFWithData, why)
		}
		if s.ShortReads > 0 {
			c.Probe("short_reads_delivered")
		}
	}
	// injected read error at an absolute offset
	offs := []int{c.Draw(len(data) + 1)}
	if len(data) <= 512 && c.Thorough() {
		offs = offs[:0]
		for o := 0; o <= len(data); o++ {
			offs = append(offs, o)
		}
		c.Probe("exhaustive_error_offset_sweep")
	}
	for _, o := range offs {
		s := disk.NewStream(data, 0, 0, 1)
		if len(offs) == 1 {
			s = drawStream(c, data)
			s.EOFWithData = false
		}
		s.ErrAt = o
		c.Fault("injected_read_error")
		got := run(s)
		if got.openErr {
			continue
		}
		if ref.openErr {
			c.Fail("io-error", "prefix", readerName(what), "constructor succeeds with a read error at offset %d but fails on the fault-free stream", o)
		}
		n := len(got.results)
		if n == 0 || got.results[n-1].ok {
			if n < 64 {
				c.Fail("io-error", "error-swallowed", readerName(what), "read error injected at offset %d of %d never surfaced: the call sequence ended without an error", o, len(data))
			}
			continue
		}
		// results before the first error are a prefix of the fault-free results
		for i := 0; i < n && got.results[i].ok; i++ {
			if i >= len(ref.results) || got.results[i] != ref.results[i] {
				c.Fail("io-error", "prefix", readerName(what), "with a read error at offset %d call %d returned %+v; fault-free run: %d calls", o, i, got.results[i], len(ref.results))
			}
		}
	}
	_ = time.Now
	_ = io.EOF
}

// Package capfile hosts the simulations of the capture-file code (C14, C15)
// over the simulated file and stream of engine D.
package capfile

import (
	"bytes"
	"errors"
	"fmt"
	"io"
	"os"
	"reflect"
	"time"

	"github.com/gopacket/gopacket"
	"github.com/gopacket/gopacket/layers"
	"github.com/gopacket/gopacket/pcap"
	"github.com/gopacket/gopacket/pcapgo"

	"verif/sim"
	"verif/sim/disk"
)

type pkt struct {
	data []byte
	ci   gopacket.CaptureInfo
	opts pcapgo.NgPacketOptions
	end  int // file length once this packet's record/block is complete
}

func fillBytes(seed uint64, n int) []byte {
	b := make([]byte, n)
	x := seed | 1
	for i := range b {
		x ^= x << 13
		x ^= x >> 7
		x ^= x << 17
		b[i] = byte(x)
	}
	return b
}

func drawLen(c *sim.Ctx) int {
	if c.Chance(12) {
		// larger than 64 KiB (loopback and offloaded captures): around the
		// sizes where readers stop allocating on the word of a length field
		c.Fault("packet_over_64k")
		return 65530 + c.Draw(9000)
	}
	switch c.Weighted(3, 4, 2, 1) {
	case 0:
		return c.Draw(9)
	case 1:
		return c.Draw(70)
	case 2:
		return c.Draw(400)
	default:
		return 1400 + c.Draw(700)
	}
}

func drawStream(c *sim.Ctx, data []byte) *disk.Stream {
	mode := c.Weighted(3, 2, 2, 2, 2)
	s := disk.NewStream(data, mode, 1+c.Draw(40), uint64(c.Draw(1<<20)))
	if mode != 0 {
		c.Fault(fmt.Sprintf("short_reads_mode%d", mode))
	}
	if c.Chance(200) {
		s.EOFWithData = true
		c.Fault("eof_with_data")
	}
	if c.Chance(150) {
		s.ZeroPm = 30 + c.Draw(200)
		c.Fault("zero_length_reads")
	}
	if c.Chance(300) {
		s.ErrWithData = true // (matters only where a read error is injected)
	}
	return s
}

func eofClass(err error) bool {
	return errors.Is(err, io.EOF) || errors.Is(err, io.ErrUnexpectedEOF)
}

type rdr interface {
	ReadPacketData() ([]byte, gopacket.CaptureInfo, error)
	ZeroCopyReadPacketData() ([]byte, gopacket.CaptureInfo, error)
}

// ---------------- classic pcap ----------------

func simC14pcap(c *sim.Ctx) {
	nanos := c.Draw(2) == 1
	n := c.Weighted(1, 3, 3, 2, 2) * (1 + c.Draw(3))
	if n > 12 {
		n = 12
	}
	snap := uint32(65536)
	switch c.Weighted(6, 3, 1) {
	case 1:
		snap = uint32(64 + c.Draw(2000))
	case 2:
		snap = 262144
	}
	lt := []layers.LinkType{layers.LinkTypeEthernet, layers.LinkTypeRaw, layers.LinkTypeLinuxSLL, layers.LinkTypeNull}[c.Draw(4)]
	f := disk.NewFile()
	var w *pcapgo.Writer
	if nanos {
		w = pcapgo.NewWriterNanos(f)
	} else {
		w = pcapgo.NewWriter(f)
	}
	if err := w.WriteFileHeader(snap, lt); err != nil {
		c.Fail("roundtrip", "write-error", "WriteFileHeader", "%v", err)
	}
	hdrEnd := len(f.Data)
	var pkts []pkt
	for i := 0; i < n; i++ {
		l := drawLen(c)
		if l > int(snap) {
			l = int(snap)
		}
		p := pkt{data: fillBytes(uint64(i*7919+l+1), l)}
		p.ci.CaptureLength = l
		p.ci.Length = l
		if c.Chance(300) {
			p.ci.Length = l + 1 + c.Draw(3000)
		}
		var sec int64
		switch c.Weighted(5, 1, 1, 1) {
		case 0:
			sec = 1_600_000_000 + int64(c.Draw(100_000_000))
		case 1:
			sec = int64(c.Draw(1000)) // at and near the epoch (time.Unix(0, 0) is not the zero time.Time)
		case 2:
			sec = 0xFFFFFFFF - int64(c.Draw(1000)) // near the end of the 32-bit range
		case 3:
			sec = 0x7FFFFFFF + int64(c.Draw(3)) - 1 // around 2038
		}
		ns := int64(c.Draw(1_000_000_000))
		if c.Chance(100) {
			ns = 999_999_999
		} else if c.Chance(150) {
			ns = 0 // a whole second: every sub-second field of the record is zero
		}
		p.ci.Timestamp = time.Unix(sec, ns).UTC()
		if c.Chance(20) {
			// the record whose 16 header bytes are all zero: nothing captured of
			// an empty packet at the epoch
			p = pkt{data: []byte{}}
			p.ci.Timestamp = time.Unix(0, 0).UTC()
			c.Fault("all_zero_record_header")
		}
		if err := w.WritePacket(p.ci, p.data); err != nil {
			c.Fail("roundtrip", "write-error", "WritePacket", "%v", err)
		}
		p.end = len(f.Data)
		pkts = append(pkts, p)
	}
	c.Ev("pcap_file", int64(n), int64(len(f.Data)), b2i(nanos), int64(snap))
	file := f.Data
	expectTS := func(t time.Time) time.Time {
		if nanos {
			return t
		}
		return t.Truncate(time.Microsecond)
	}
	callPat := uint64(0) // bit i: call i is the zero-copy one (0: as the caller of readAll says)
	readAll := func(s io.Reader, zero bool, what string, upto int, strict bool) {
		r, err := pcapgo.NewReader(s)
		if err != nil {
			if upto >= hdrEnd || !eofClass(err) {
				c.Fail(what, "open-error", "NewReader", "prefix %d of %d: %v", upto, len(file), err)
			}
			return
		}
		if upto < hdrEnd {
			c.Fail(what, "opened-short-file", "NewReader", "reader opened on %d bytes (header is %d)", upto, hdrEnd)
		}
		if r.LinkType() != lt || r.Snaplen() != snap {
			c.Fail(what, "header-mismatch", "NewReader", "link type %v snaplen %d, written %v %d", r.LinkType(), r.Snaplen(), lt, snap)
		}
		// what the copying call returned belongs to the caller: it is looked at
		// again after all later reads
		keptD := map[int][]byte{}
		recheck := func() {
			for i, d := range keptD {
				if !bytes.Equal(d, pkts[i].data) {
					c.Fail(what, "returned-packet-changed-by-later-read", "Reader", "packet %d returned by ReadPacketData no longer holds its bytes after later reads", i)
				}
			}
		}
		for i := 0; ; i++ {
			var d []byte
			var ci gopacket.CaptureInfo
			zero := zero
			if callPat != 0 {
				// a program that uses both calls on one reader
				zero = callPat>>(uint(i)%63)&1 == 1
			}
			if zero {
				d, ci, err = r.ZeroCopyReadPacketData()
			} else {
				d, ci, err = r.ReadPacketData()
			}
			want := i < len(pkts) && pkts[i].end <= upto
			if err != nil {
				recheck()
				if want {
					c.Fail(what, "packet-lost", "Reader", "packet %d (record ends at %d) not returned from prefix %d: %v", i, pkts[i].end, upto, err)
				}
				if !eofClass(err) {
					c.Fail(what, "wrong-error", "Reader", "after %d packets of prefix %d: error %v is neither EOF nor unexpected EOF", i, upto, err)
				}
				if upto == len(file) && !errors.Is(err, io.EOF) && strict {
					c.Fail(what, "wrong-error", "Reader", "complete file ends with %v, not io.EOF", err)
				}
				return
			}
			if !want {
				c.Fail(what, "packet-from-cut-record", "Reader", "call %d returned a packet from prefix %d although record %d ends at %d", i, upto, i, endOf(pkts, i))
			}
			p := pkts[i]
			if !bytes.Equal(d, p.data) || ci.CaptureLength != p.ci.CaptureLength || ci.Length != p.ci.Length || !ci.Timestamp.Equal(expectTS(p.ci.Timestamp)) {
				c.Fail(what, "packet-differs", "Reader", "packet %d: got len %d caplen %d length %d ts %v; wrote len %d caplen %d length %d ts %v (zero-copy %v)", i, len(d), ci.CaptureLength, ci.Length, ci.Timestamp.UnixNano(), len(p.data), p.ci.CaptureLength, p.ci.Length, expectTS(p.ci.Timestamp).UnixNano(), zero)
			}
			if !zero {
				keptD[i] = d
			}
		}
	}
	// round trip, copying and zero-copy, chunked stream
	readAll(drawStream(c, file), false, "roundtrip", len(file), true)
	readAll(drawStream(c, file), true, "roundtrip", len(file), true)
	// ... and with both kinds of call on one reader, in a drawn pattern
	callPat = uint64(c.Draw(1<<30))<<1 | 1<<62
	readAll(drawStream(c, file), false, "roundtrip", len(file), true)
	if c.Chance(500) {
		callPat = 0
	}
	// crash at every byte (exhaustive for small files, boundaries and a sample beyond)
	cuts := cutPoints(c, len(file), hdrEnd, pkts)
	for _, k := range cuts {
		c.Fault("crash_cut")
		readAll(bytes.NewReader(file[:k]), k&1 == 1, "truncation", k, false)
	}
	if len(cuts) > 0 {
		k := cuts[c.Draw(len(cuts))]
		readAll(drawStream(c, file[:k]), false, "truncation", k, false)
	}
	// second reader: libpcap
	if c.Chance(150) || (c.Thorough() && c.Chance(150)) {
		libpcapCheck(c, file, pkts, lt, nanos, "pcap")
	}
}

func endOf(p []pkt, i int) int {
	if i < len(p) {
		return p[i].end
	}
	return -1
}

func cutPoints(c *sim.Ctx, n, hdrEnd int, pkts []pkt) []int {
	var cuts []int
	if n <= 2048 || c.Thorough() && n <= 8192 {
		for k := 0; k < n; k++ {
			cuts = append(cuts, k)
		}
		c.Probe("exhaustive_cut_sweep")
		return cuts
	}
	seen := map[int]bool{}
	add := func(k int) {
		if k >= 0 && k < n && !seen[k] {
			seen[k] = true
			cuts = append(cuts, k)
		}
	}
	for d := -2; d <= 2; d++ {
		add(hdrEnd + d)
		for _, p := range pkts {
			add(p.end + d)
		}
	}
	for i := 0; i < 64; i++ {
		add(c.Draw(n))
	}
	return cuts
}

var scratchSeq int

func libpcapCheck(c *sim.Ctx, file []byte, pkts []pkt, lt layers.LinkType, nanos bool, kind string) {
	for _, p := range pkts {
		// libpcap's on-disk timeval is a signed 32-bit count of seconds
		if kind == "pcap" && p.ci.Timestamp.Unix() >= 1<<31 {
			return
		}
	}
	dir := os.Getenv("VERIF_SCRATCH")
	if dir == "" {
		dir = "/dev/shm"
	}
	scratchSeq++
	path := fmt.Sprintf("%s/verif-c14-%d-%d.%s", dir, os.Getpid(), scratchSeq, kind)
	if err := os.WriteFile(path, file, 0o600); err != nil {
		c.Bugf("scratch file: %v", err)
	}
	defer os.Remove(path)
	h, err := pcap.OpenOffline(path)
	if err != nil {
		c.Fail("libpcap", "open-error", "pcap.OpenOffline", "libpcap cannot open the %s file: %v", kind, err)
	}
	defer h.Close()
	// (libpcap maps LINKTYPE_RAW 101 to the platform's DLT_RAW 12: not compared)
	if lt != layers.LinkTypeRaw && h.LinkType() != lt {
		c.Fail("libpcap", "link-type", "pcap.OpenOffline", "libpcap sees link type %v, written %v", h.LinkType(), lt)
	}
	for i := 0; ; i++ {
		d, ci, err := h.ReadPacketData()
		if err != nil {
			if i != len(pkts) || err != io.EOF {
				c.Fail("libpcap", "packet-lost", "pcap.Handle", "libpcap stopped after %d of %d packets: %v (%v)", i, len(pkts), err, h.Error())
			}
			break
		}
		if i >= len(pkts) {
			c.Fail("libpcap", "extra-packet", "pcap.Handle", "libpcap read more than %d packets", len(pkts))
		}
		p := pkts[i]
		want := p.ci.Timestamp
		if !nanos {
			want = want.Truncate(time.Microsecond)
		}
		got := ci.Timestamp
		if h.Resolution().Exponent > -9 {
			want = want.Truncate(time.Microsecond)
		}
		if !bytes.Equal(d, p.data) || ci.Length != p.ci.Length || ci.CaptureLength != p.ci.CaptureLength || !got.Equal(want) {
			c.Fail("libpcap", "packet-differs", "pcap.Handle", "packet %d: libpcap got len %d caplen %d length %d ts %d; wrote len %d caplen %d length %d ts %d", i, len(d), ci.CaptureLength, ci.Length, got.UnixNano(), len(p.data), p.ci.CaptureLength, p.ci.Length, want.UnixNano())
		}
	}
	c.Probe("libpcap_read_" + kind)
}

// ---------------- pcapng ----------------

func drawStr(c *sim.Ctx, what int) string {
	n := c.Weighted(9, 6, 6, 6, 6, 3, 1)
	if n == 5 {
		n = 5 + c.Draw(60)
	}
	if n == 6 {
		// longer than the reader's reusable option buffer (1 KiB), any residue mod 4
		n = 1020 + c.Draw(1200)
		c.Fault("long_option_value")
	}
	s := make([]byte, n)
	for i := range s {
		s[i] = "abcdefghijklmnopqrstuvwxyz0123456789 -_"[(what*7+i*3+n)%39]
	}
	return string(s)
}

// simC14ngSections: a capture file that a second (and third) NgWriter was
// appended to - or several capture files concatenated. Every section has its
// own interface list (ids start again at 0) with its own snap length and
// timestamp offset; the reader has to give back the packets of all sections
// in order, each with the interface index and the timestamp it was written
// with.
func simC14ngSections(c *sim.Ctx) {
	f := disk.NewFile()
	type spkt struct {
		pkt
		sec int
	}
	var pkts []spkt
	var offs []uint64
	nsec := 2 + c.Draw(2)
	for sec := 0; sec < nsec; sec++ {
		in := pcapgo.NgInterface{LinkType: layers.LinkTypeEthernet, TimestampResolution: 9, Name: fmt.Sprintf("sec%d", sec)}
		if c.Chance(400) {
			in.TimestampOffset = uint64(1 + c.Draw(100000))
		}
		if c.Chance(400) {
			in.SnapLength = uint32(2200 + c.Draw(5000))
		}
		offs = append(offs, in.TimestampOffset)
		w, err := pcapgo.NewNgWriterInterface(f, in, pcapgo.NgWriterOptions{SectionInfo: pcapgo.NgSectionInfo{Comment: fmt.Sprintf("section %d", sec)}})
		if err != nil {
			c.Fail("roundtrip", "write-error", "NewNgWriterInterface", "%v", err)
		}
		for i, n := 0, 1+c.Draw(4); i < n; i++ {
			l := c.Draw(300)
			p := spkt{sec: sec}
			p.data = fillBytes(uint64(sec*1000+i*7+l+1), l)
			p.ci = gopacket.CaptureInfo{CaptureLength: l, Length: l + c.Draw(2)*c.Draw(100), InterfaceIndex: 0,
				Timestamp: time.Unix(int64(1_600_000_000+c.Draw(100_000_000)), int64(c.Draw(1_000_000_000))).UTC()}
			if err := w.WritePacket(p.ci, p.data); err != nil {
				c.Fail("roundtrip", "write-error", "WritePacket", "%v", err)
			}
			pkts = append(pkts, p)
		}
		if err := w.Flush(); err != nil {
			c.Fail("roundtrip", "write-error", "Flush", "%v", err)
		}
	}
	c.Fault("several_sections_in_one_file")
	c.Ev("ng_sections", int64(nsec), int64(len(pkts)), int64(len(f.Data)))
	for pass := 0; pass < 2; pass++ {
		zero := pass == 1
		r, err := pcapgo.NewNgReader(drawStream(c, f.Data), pcapgo.NgReaderOptions{})
		if err != nil {
			c.Fail("roundtrip", "open-error", "NewNgReader", "file of %d sections: %v", nsec, err)
		}
		for i := 0; ; i++ {
			var d []byte
			var ci gopacket.CaptureInfo
			if zero {
				d, ci, err = r.ZeroCopyReadPacketData()
			} else {
				d, ci, err = r.ReadPacketData()
			}
			if err != nil {
				if i < len(pkts) {
					c.Fail("roundtrip", "packet-lost", "NgReader", "packet %d of %d (section %d of %d) not returned: %v", i, len(pkts), pkts[min(i, len(pkts)-1)].sec, nsec, err)
				}
				if !errors.Is(err, io.EOF) {
					c.Fail("roundtrip", "wrong-error", "NgReader", "file of %d sections ends with %v, not io.EOF", nsec, err)
				}
				break
			}
			if i >= len(pkts) {
				c.Fail("roundtrip", "packet-invented", "NgReader", "call %d returned a packet, %d were written", i, len(pkts))
			}
			p := pkts[i]
			if !bytes.Equal(d, p.data) || ci.CaptureLength != p.ci.CaptureLength || ci.Length != p.ci.Length || ci.InterfaceIndex != 0 {
				c.Fail("roundtrip", "packet-differs", "NgReader", "packet %d (section %d): got len %d caplen %d length %d if %d; wrote len %d caplen %d length %d if 0 (zero-copy %v)", i, p.sec, len(d), ci.CaptureLength, ci.Length, ci.InterfaceIndex, len(p.data), p.ci.CaptureLength, p.ci.Length, zero)
			}
			if off := offs[p.sec]; off != 0 && ci.Timestamp.Equal(p.ci.Timestamp.Add(time.Duration(off)*time.Second)) {
				c.Soft("roundtrip", "timestamp-shifted-by-if_tsoffset", "NgWriter", "packet %d of section %d: written %v, read back %v: the writer stores absolute timestamps next to if_tsoffset=%d s, which the reader adds", i, p.sec, p.ci.Timestamp, ci.Timestamp, off)
			} else if !ci.Timestamp.Equal(p.ci.Timestamp) {
				c.Fail("roundtrip", "timestamp-differs", "NgReader", "packet %d of section %d (timestamp offset of its interface %d s; of the sections %v): read %v, wrote %v", i, p.sec, off, offs, ci.Timestamp, p.ci.Timestamp)
			}
		}
	}
	c.Probe("several_sections_read_back")
}

func simC14ng(c *sim.Ctx) {
	if c.Chance(80) {
		simC14ngSections(c)
		return
	}
	nif := 1 + c.Weighted(4, 2, 1)
	mixedLT := c.Chance(300)
	lts := []layers.LinkType{layers.LinkTypeEthernet, layers.LinkTypeRaw, layers.LinkTypeLinuxSLL}
	mkIntf := func(i int) pcapgo.NgInterface {
		in := pcapgo.NgInterface{LinkType: lts[0], TimestampResolution: 9}
		if mixedLT {
			in.LinkType = lts[c.Draw(3)]
		}
		if c.Chance(700) {
			in.Name = "if" + drawStr(c, i)
		}
		if c.Chance(300) {
			in.Comment = drawStr(c, i+10)
		}
		if c.Chance(300) {
			in.Description = drawStr(c, i+20)
		}
		if c.Chance(300) {
			in.Filter = drawStr(c, i+30)
		}
		if c.Chance(300) {
			in.OS = drawStr(c, i+40)
		}
		if c.Chance(300) {
			in.SnapLength = uint32(2200 + c.Draw(70000))
		}
		if c.Chance(200) {
			in.TimestampOffset = uint64(1 + c.Draw(100000))
			c.Probe("interface_with_timestamp_offset")
		}
		return in
	}
	var opt pcapgo.NgWriterOptions
	if c.Chance(500) {
		opt.SectionInfo = pcapgo.NgSectionInfo{Hardware: drawStr(c, 1), OS: drawStr(c, 2), Application: drawStr(c, 3), Comment: drawStr(c, 4)}
	}
	f := disk.NewFile()
	intfs := []pcapgo.NgInterface{mkIntf(0)}
	var w *pcapgo.NgWriter
	var err error
	if c.Chance(150) {
		// the short constructor: default interface and section information
		intfs[0] = pcapgo.DefaultNgInterface
		intfs[0].LinkType = layers.LinkTypeEthernet
		opt = pcapgo.DefaultNgWriterOptions
		w, err = pcapgo.NewNgWriter(f, layers.LinkTypeEthernet)
		c.Probe("short_ng_constructor")
	} else {
		w, err = pcapgo.NewNgWriterInterface(f, intfs[0], opt)
	}
	if err != nil {
		c.Fail("roundtrip", "write-error", "NewNgWriterInterface", "%v", err)
	}
	flush := func() {
		if err := w.Flush(); err != nil {
			c.Fail("roundtrip", "write-error", "Flush", "%v", err)
		}
	}
	flush()
	hdrEnd := len(f.Data)
	for i := 1; i < nif; i++ {
		if c.Chance(700) { // others are added in the middle of the packets
			in := mkIntf(i)
			if _, err := w.AddInterface(in); err != nil {
				c.Fail("roundtrip", "write-error", "AddInterface", "%v", err)
			}
			intfs = append(intfs, in)
		}
	}
	flush()
	firstPktAt := len(f.Data)
	n := c.Weighted(1, 3, 3, 2, 2) * (1 + c.Draw(3))
	if n > 12 {
		n = 12
	}
	var pkts []pkt
	stats := map[int]*pcapgo.NgInterfaceStatistics{}
	for i := 0; i < n; i++ {
		if len(intfs) < nif && c.Chance(400) {
			in := mkIntf(len(intfs))
			if _, err := w.AddInterface(in); err != nil {
				c.Fail("roundtrip", "write-error", "AddInterface", "%v", err)
			}
			intfs = append(intfs, in)
			c.Probe("interface_added_between_packets")
		}
		if c.Chance(120) {
			// a decryption secrets block between packets must not disturb them
			if err := w.WriteDecryptionSecretsBlock(pcapgo.DSB_SECRETS_TYPE_TLS, fillBytes(uint64(i+77), c.Draw(70))); err != nil {
				c.Fail("roundtrip", "write-error", "WriteDecryptionSecretsBlock", "%v", err)
			}
			c.Probe("secrets_block_between_packets")
		}
		if c.Chance(120) {
			ix := c.Draw(len(intfs))
			if intfs[ix].TimestampOffset == 0 {
				st := pcapgo.NgInterfaceStatistics{
					LastUpdate:      time.Unix(int64(1_600_000_000+c.Draw(1000)), int64(c.Draw(1_000_000_000))).UTC(),
					StartTime:       time.Unix(int64(1_500_000_000+c.Draw(1000)), 5).UTC(),
					EndTime:         time.Unix(int64(1_600_000_000+c.Draw(1000)), 7).UTC(),
					PacketsReceived: uint64(c.Draw(1 << 20)),
					PacketsDropped:  uint64(c.Draw(1 << 10)),
				}
				if err := w.WriteInterfaceStats(ix, st); err != nil {
					c.Fail("roundtrip", "write-error", "WriteInterfaceStats", "%v", err)
				}
				stats[ix] = &st
				c.Probe("statistics_block_between_packets")
			}
		}
		l := drawLen(c)
		ifx := c.Draw(len(intfs))
		if sl := int(intfs[ifx].SnapLength); sl != 0 && l > sl {
			l = sl // a capture never holds more of a packet than the interface's snap length
		}
		p := pkt{data: fillBytes(uint64(i*104729+l+1), l)}
		p.ci.InterfaceIndex = ifx
		p.ci.CaptureLength = l
		p.ci.Length = l
		if c.Chance(300) {
			p.ci.Length = l + 1 + c.Draw(3000)
		}
		sec := int64(1_600_000_000 + c.Draw(100_000_000))
		if c.Chance(100) {
			sec = int64(200_000 + c.Draw(1000))
		}
		p.ci.Timestamp = time.Unix(sec, int64(c.Draw(1_000_000_000))).UTC()
		if c.Chance(500) {
			o := &p.opts
			for k := c.Weighted(3, 2, 1); k > 0; k-- {
				o.Comments = append(o.Comments, drawStr(c, i+k))
			}
			if c.Chance(300) {
				fl := pcapgo.NgEpbFlags{Direction: pcapgo.NgEpbFlag(c.Draw(3)), Reception: pcapgo.NgEpbFlag(c.Draw(5) << 2), FCSLen: pcapgo.NewNgEpbFlagFCSLength(uint8(c.Draw(8))), LinkLayerErr: pcapgo.NgEpbFlag(uint32(c.Draw(256)) << 24)}
				o.Flags = &fl
			}
			for k := c.Weighted(4, 1, 1); k > 0; k-- {
				o.Hashes = append(o.Hashes, pcapgo.NgEpbHash{Algorithm: pcapgo.NgEpbHashAlgorithm(c.Draw(5)), Hash: fillBytes(uint64(i+k), c.Draw(18))})
			}
			if c.Chance(250) {
				v := uint64(c.Draw(1 << 30))
				o.DropCount = &v
			}
			if c.Chance(250) {
				v := uint64(c.Draw(1<<30))<<20 | 5
				o.PacketID = &v
			}
			if c.Chance(250) {
				v := uint32(c.Draw(1 << 16))
				o.Queue = &v
			}
			for k := c.Weighted(4, 1, 1); k > 0; k-- {
				o.Verdicts = append(o.Verdicts, pcapgo.NgEpbVerdict{Type: pcapgo.NgEpbVerdictType(c.Draw(3)), Data: fillBytes(uint64(i+k+9), c.Draw(12))})
			}
		}
		if plain := optsEqual(p.opts, pcapgo.NgPacketOptions{}) && c.Draw(2) == 1; plain {
			// a packet without options goes through either call
			if err := w.WritePacket(p.ci, p.data); err != nil {
				c.Fail("roundtrip", "write-error", "WritePacket", "%v", err)
			}
			c.Probe("plain_write_call_on_ng_writer")
		} else if err := w.WritePacketWithOptions(p.ci, p.data, p.opts); err != nil {
			c.Fail("roundtrip", "write-error", "WritePacketWithOptions", "%v", err)
		}
		flush()
		p.end = len(f.Data)
		pkts = append(pkts, p)
	}
	file := f.Data
	c.Ev("ng_file", int64(len(intfs)), int64(n), int64(len(file)), b2i(mixedLT))
	// block framing, checked on the bytes themselves (NgReader never looks at
	// the trailing copy of the block length, every other reader does): type,
	// total length, body, total length again; lengths are multiples of 4, the
	// blocks tile the file, and every packet's block ends where the writer said
	{
		ends := map[int]bool{}
		for off := 0; off < len(file); {
			if off+12 > len(file) {
				c.Fail("roundtrip", "block-framing", "NgWriter", "%d stray bytes at offset %d after the last block", len(file)-off, off)
			}
			bl := int(uint32(file[off+4]) | uint32(file[off+5])<<8 | uint32(file[off+6])<<16 | uint32(file[off+7])<<24)
			if bl < 12 || bl%4 != 0 || off+bl > len(file) {
				c.Fail("roundtrip", "block-framing", "NgWriter", "block at offset %d declares total length %d (file has %d bytes)", off, bl, len(file))
			}
			tl := int(uint32(file[off+bl-4]) | uint32(file[off+bl-3])<<8 | uint32(file[off+bl-2])<<16 | uint32(file[off+bl-1])<<24)
			if tl != bl {
				c.Fail("roundtrip", "block-framing", "NgWriter", "block at offset %d (type %#x): total length is %d in front and %d behind the body", off, file[off], bl, tl)
			}
			off += bl
			ends[off] = true
		}
		for i, p := range pkts {
			if !ends[p.end] {
				c.Fail("roundtrip", "block-framing", "NgWriter", "packet %d was complete at offset %d according to the writer, no block ends there", i, p.end)
			}
		}
	}
	sameLT := true
	for _, in := range intfs {
		if in.LinkType != intfs[0].LinkType {
			sameLT = false
		}
	}

	callPat := uint64(0) // bit i: call i is the zero-copy one (0: as the caller of readAll says)
	readAll := func(s io.Reader, zero, mixed bool, what string, upto int) {
		r, err := pcapgo.NewNgReader(s, pcapgo.NgReaderOptions{WantMixedLinkType: mixed})
		if err != nil {
			// in non-mixed mode the constructor also reads up to the first interface block
			if upto >= firstPktAt || !eofClass(err) {
				c.Fail(what, "open-error", "NewNgReader", "prefix %d of %d (section header ends at %d): %v", upto, len(file), hdrEnd, err)
			}
			return
		}
		if shbEnd := int(uint32(file[4]) | uint32(file[5])<<8 | uint32(file[6])<<16 | uint32(file[7])<<24); upto < shbEnd {
			c.Fail(what, "opened-short-file", "NewNgReader", "reader opened on %d bytes (section header block ends at %d)", upto, shbEnd)
		}
		// what the copying call returned belongs to the caller (data, capture
		// info with its ancillary link type, options): it is looked at again
		// after all later reads
		type keptT struct {
			d  []byte
			ci gopacket.CaptureInfo
			o  pcapgo.NgPacketOptions
		}
		kept := map[int]keptT{}
		recheck := func() {
			for i, k := range kept {
				if !bytes.Equal(k.d, pkts[i].data) {
					c.Fail(what, "returned-packet-changed-by-later-read", "NgReader", "packet %d returned by ReadPacketDataWithOptions no longer holds its bytes after later reads", i)
				}
				if mixed && (len(k.ci.AncillaryData) != 1 || k.ci.AncillaryData[0] != intfs[pkts[i].ci.InterfaceIndex].LinkType) {
					c.Fail(what, "returned-packet-changed-by-later-read", "NgReader", "packet %d: the capture info returned by the copying call now says link type %v, its interface has %v (changed by later reads)", i, k.ci.AncillaryData, intfs[pkts[i].ci.InterfaceIndex].LinkType)
				}
				if !optsEqual(k.o, pkts[i].opts) {
					c.Fail(what, "returned-packet-changed-by-later-read", "NgReader", "packet %d: options returned by the copying call changed after later reads: now %s, written %s", i, optStr(k.o), optStr(pkts[i].opts))
				}
			}
		}
		for i := 0; ; i++ {
			var d []byte
			var ci gopacket.CaptureInfo
			var o pcapgo.NgPacketOptions
			zero := zero
			if callPat != 0 {
				zero = callPat>>(uint(i)%63)&1 == 1
			}
			if zero {
				d, ci, o, err = r.ZeroCopyReadPacketDataWithOptions()
			} else {
				d, ci, o, err = r.ReadPacketDataWithOptions()
			}
			want := i < len(pkts) && pkts[i].end <= upto
			if err != nil {
				recheck()
				if want {
					c.Fail(what, "packet-lost", "NgReader", "packet %d (block ends at %d) not returned from prefix %d: %v", i, pkts[i].end, upto, err)
				}
				if !eofClass(err) {
					c.Fail(what, "wrong-error", "NgReader", "after %d packets of prefix %d: error %v is neither EOF nor unexpected EOF", i, upto, err)
				}
				if upto == len(file) && !errors.Is(err, io.EOF) {
					c.Fail(what, "wrong-error", "NgReader", "complete file ends with %v, not io.EOF", err)
				}
				break
			}
			if !want {
				c.Fail(what, "packet-from-cut-block", "NgReader", "call %d returned a packet from prefix %d although block %d ends at %d", i, upto, i, endOf(pkts, i))
			}
			p := pkts[i]
			if !bytes.Equal(d, p.data) || ci.CaptureLength != p.ci.CaptureLength || ci.Length != p.ci.Length || ci.InterfaceIndex != p.ci.InterfaceIndex {
				c.Fail(what, "packet-differs", "NgReader", "packet %d: got len %d caplen %d length %d if %d; wrote len %d caplen %d length %d if %d (zero-copy %v)", i, len(d), ci.CaptureLength, ci.Length, ci.InterfaceIndex, len(p.data), p.ci.CaptureLength, p.ci.Length, p.ci.InterfaceIndex, zero)
			}
			if off := intfs[ci.InterfaceIndex].TimestampOffset; off != 0 && ci.Timestamp.Equal(p.ci.Timestamp.Add(time.Duration(off)*time.Second)) {
				// on record as an open finding: note it and keep checking the rest of the run
				c.Soft("roundtrip", "timestamp-shifted-by-if_tsoffset", "NgWriter", "packet %d on interface %d: written %v, read back %v: the writer stores absolute timestamps next to if_tsoffset=%d s, which the reader adds", i, ci.InterfaceIndex, p.ci.Timestamp, ci.Timestamp, off)
			} else if !ci.Timestamp.Equal(p.ci.Timestamp) {
				c.Fail(what, "timestamp-differs", "NgReader", "packet %d on interface %d (timestamp offset %d s): read %v, wrote %v", i, ci.InterfaceIndex, intfs[ci.InterfaceIndex].TimestampOffset, ci.Timestamp, p.ci.Timestamp)
			}
			if mixed {
				if len(ci.AncillaryData) != 1 || ci.AncillaryData[0] != intfs[p.ci.InterfaceIndex].LinkType {
					c.Fail(what, "link-type-differs", "NgReader", "packet %d: ancillary link type %v, interface has %v", i, ci.AncillaryData, intfs[p.ci.InterfaceIndex].LinkType)
				}
			}
			if !optsEqual(o, p.opts) {
				c.Fail(what, "options-differ", "NgReader", "packet %d: options read %s, written %s", i, optStr(o), optStr(p.opts))
			}
			if !zero {
				kept[i] = keptT{d, ci, o}
			}
		}
		if upto == len(file) {
			// interface and section metadata
			if r.NInterfaces() != len(intfs) {
				c.Fail(what, "interfaces-differ", "NgReader", "%d interfaces read, %d written", r.NInterfaces(), len(intfs))
			}
			for i, in := range intfs {
				g, _ := r.Interface(i)
				if g.Name != in.Name || g.Comment != in.Comment || g.Description != in.Description || g.Filter != in.Filter || g.OS != in.OS || g.LinkType != in.LinkType || g.SnapLength != in.SnapLength || g.TimestampOffset != in.TimestampOffset || g.TimestampResolution != 9 {
					c.Fail(what, "interface-differs", "NgReader", "interface %d read %+v, written %+v", i, strip(g), strip(in))
				}
			}
			for ix, st := range stats {
				g, _ := r.Interface(ix)
				gs := g.Statistics
				if !gs.LastUpdate.Equal(st.LastUpdate) || !gs.StartTime.Equal(st.StartTime) || !gs.EndTime.Equal(st.EndTime) || gs.PacketsReceived != st.PacketsReceived || gs.PacketsDropped != st.PacketsDropped {
					c.Fail(what, "statistics-differ", "NgReader", "interface %d statistics read %+v, written %+v", ix, gs, *st)
				}
			}
			if r.SectionInfo() != opt.SectionInfo {
				c.Fail(what, "section-info-differs", "NgReader", "read %+v, written %+v", r.SectionInfo(), opt.SectionInfo)
			}
		}
	}
	mixed := !sameLT || c.Draw(2) == 1
	readAll(drawStream(c, file), false, mixed, "roundtrip", len(file))
	readAll(drawStream(c, file), true, mixed, "roundtrip", len(file))
	// ... and with both kinds of call on one reader, in a drawn pattern
	callPat = uint64(c.Draw(1<<30))<<1 | 1<<62
	readAll(drawStream(c, file), false, mixed, "roundtrip", len(file))
	if c.Chance(500) {
		callPat = 0
	}
	cuts := cutPoints(c, len(file), hdrEnd, pkts)
	for _, k := range cuts {
		c.Fault("crash_cut")
		readAll(bytes.NewReader(file[:k]), k&1 == 1, mixed, "truncation", k)
	}
	if len(cuts) > 0 {
		k := cuts[c.Draw(len(cuts))]
		readAll(drawStream(c, file[:k]), false, mixed, "truncation", k)
	}
	if sameLT && intfs[0].LinkType != layers.LinkTypeRaw && sameSnap(intfs) && noOffset(intfs) && (c.Chance(150) || (c.Thorough() && c.Chance(150))) {
		libpcapCheck(c, file, pkts, intfs[0].LinkType, true, "pcapng")
	}
}

// noOffset: libpcap adds if_tsoffset like NgReader does, so files with an
// offset show the open finding recorded for NgWriter; they are not given to it.
func noOffset(in []pcapgo.NgInterface) bool {
	for _, i := range in {
		if i.TimestampOffset != 0 {
			return false
		}
	}
	return true
}

func sameSnap(in []pcapgo.NgInterface) bool {
	for _, i := range in {
		if i.SnapLength != in[0].SnapLength {
			return false
		}
	}
	return true
}

func strip(i pcapgo.NgInterface) string {
	return fmt.Sprintf("{Name:%q Comment:%q Description:%q Filter:%q OS:%q LinkType:%v Res:%d Off:%d Snap:%d}", i.Name, i.Comment, i.Description, i.Filter, i.OS, i.LinkType, i.TimestampResolution, i.TimestampOffset, i.SnapLength)
}

func optsEqual(a, b pcapgo.NgPacketOptions) bool {
	if len(a.Comments) != len(b.Comments) || len(a.Hashes) != len(b.Hashes) || len(a.Verdicts) != len(b.Verdicts) {
		return false
	}
	for i := range a.Comments {
		if a.Comments[i] != b.Comments[i] {
			return false
		}
	}
	for i := range a.Hashes {
		if a.Hashes[i].Algorithm != b.Hashes[i].Algorithm || !bytes.Equal(a.Hashes[i].Hash, b.Hashes[i].Hash) {
			return false
		}
	}
	for i := range a.Verdicts {
		if a.Verdicts[i].Type != b.Verdicts[i].Type || !bytes.Equal(a.Verdicts[i].Data, b.Verdicts[i].Data) {
			return false
		}
	}
	return reflect.DeepEqual(a.Flags, b.Flags) && reflect.DeepEqual(a.DropCount, b.DropCount) && reflect.DeepEqual(a.PacketID, b.PacketID) && reflect.DeepEqual(a.Queue, b.Queue)
}

func optStr(o pcapgo.NgPacketOptions) string {
	s := fmt.Sprintf("{comments:%q hashes:%v verdicts:%v", o.Comments, o.Hashes, o.Verdicts)
	if o.Flags != nil {
		s += fmt.Sprintf(" flags:%+v", *o.Flags)
	}
	if o.DropCount != nil {
		s += fmt.Sprintf(" drop:%d", *o.DropCount)
	}
	if o.PacketID != nil {
		s += fmt.Sprintf(" id:%d", *o.PacketID)
	}
	if o.Queue != nil {
		s += fmt.Sprintf(" queue:%d", *o.Queue)
	}
	return s + "}"
}

func b2i(b bool) int64 {
	if b {
		return 1
	}
	return 0
}

package capfile

import (
	"os"
	"testing"

	"verif/sim"
)

var sims = map[string]sim.SimFunc{"c14pcap": simC14pcap, "c14ng": simC14ng, "c15": simC15}

func TestChild(t *testing.T) {
	if !sim.ChildMain(sims) {
		t.Skip("not a child")
	}
}

func TestMain(m *testing.M) { os.Exit(m.Run()) }

// Package reader hosts the simulation of tcpreader.ReaderStream (C20) inside a
// testing/synctest bubble: an assembler-side actor executing a delivery script
// and a consumer actor reading with seeded buffer sizes and closing at a seeded
// point, released one at a time by the tape-driven controller.
package reader

import (
	"bytes"
	"errors"
	"io"
	"os"
	"testing"

	"github.com/gopacket/gopacket"
	"github.com/gopacket/gopacket/tcpassembly"
	"github.com/gopacket/gopacket/tcpassembly/tcpreader"

	"verif/sim"
	"verif/sim/bubble"
	"verif/sim/tcpsim"
)

type elem struct {
	skip     int
	data     []byte
	batch    int
	reported bool
	off      int
}

func simC20(c *sim.Ctx)    { runC20(c, false) }
func simC20asm(c *sim.Ctx) { runC20(c, true) }

// teeStream sits between the real assembler and the ReaderStream and records
// what is delivered, so the read model works on the assembler's own batches.
type teeStream struct {
	r        *tcpreader.ReaderStream
	onBatch  func([]tcpassembly.Reassembly)
	onFinish func()
}

func (t *teeStream) Reassembled(rs []tcpassembly.Reassembly) { t.onBatch(rs); t.r.Reassembled(rs) }
func (t *teeStream) ReassemblyComplete()                     { t.onFinish(); t.r.ReassemblyComplete() }

type discard struct{}

func (discard) Reassembled([]tcpassembly.Reassembly) {}
func (discard) ReassemblyComplete()                  {}

type factory struct {
	first tcpassembly.Stream
	n     int
}

func (f *factory) New(a, b gopacket.Flow) tcpassembly.Stream {
	f.n++
	if f.n == 1 {
		return f.first
	}
	return discard{} // late duplicates after the close: not the stream under test
}

// edesc describes one delivered element of a script: n bytes behind a gap of skip.
type edesc struct {
	n, skip int
	endMark bool
}

// c20cfg is everything one execution in a bubble depends on.
type c20cfg struct {
	loss       bool
	script     [][]edesc
	closeAfter int // number of consumer steps before Close; -1 = read to EOF
	closeTwice bool
	drainAfter int         // >= 0: after that many reads the consumer drains the stream with DiscardBytesToEOF
	pickAsm    func() bool // who moves when both sides can
	size       func() int  // buffer size of the next Read
	real       bool
	plan       *tcpsim.Plan
}

func materialize(script [][]edesc) (batches [][]tcpassembly.Reassembly, elems []*elem, total int) {
	for b, bd := range script {
		var batch []tcpassembly.Reassembly
		for k, e := range bd {
			d := make([]byte, e.n)
			for i := range d {
				d[i] = byte(total + i + 1)
			}
			total += e.n
			// (End is also set on an element in the middle now and then: the
			// assembler marks the slice of an out-of-order FIN/RST that way and
			// only ends the stream when the LAST slice of a batch carries it)
			batch = append(batch, tcpassembly.Reassembly{Bytes: append([]byte(nil), d...), Skip: e.skip, Start: len(elems) == 0, End: (b == len(script)-1 && k == len(bd)-1) || (e.endMark && k != len(bd)-1)})
			elems = append(elems, &elem{skip: e.skip, data: d, batch: b})
		}
		batches = append(batches, batch)
	}
	return
}

func drawScript(c *sim.Ctx, nb int, maxBytes int) (script [][]edesc) {
	first := true
	for b := 0; b < nb; b++ {
		var batch []edesc
		for k := c.Weighted(1, 4, 2, 1); k > 0; k-- {
			n := 0
			switch c.Weighted(2, 4, 2) {
			case 1:
				n = 1 + c.Draw(12)
			case 2:
				n = 1 + c.Draw(80)
			}
			if maxBytes > 0 && n > maxBytes {
				n = 1 + n%maxBytes
			}
			skip := 0
			if c.Chance(200) {
				skip = 1 + c.Draw(100)
				if first && c.Draw(2) == 1 {
					skip = -1
				}
				c.Fault("gap_in_delivery")
			}
			first = false
			batch = append(batch, edesc{n: n, skip: skip, endMark: c.Chance(40)})
			if n == 0 {
				c.Fault("empty_slice_delivered")
			}
		}
		if len(batch) == 0 {
			c.Fault("empty_batch")
		}
		script = append(script, batch)
	}
	return
}

func runC20(c *sim.Ctx, real bool) {
	cfg := c20cfg{real: real}
	cfg.loss = c.Chance(500)
	nb := c.Weighted(1, 3, 3, 2, 1)
	if real {
		nb = 0
		cfg.plan = tcpsim.Generate(c, tcpsim.GenCfg{MaxConns: 1, AllowRST: true, AllowNoEnd: true, Short: true, SynData: true})
	}
	cfg.script = drawScript(c, nb, 0)
	cfg.closeAfter = -1
	if c.Chance(500) {
		cfg.closeAfter = c.Draw(12)
		c.Fault("close_before_eof")
	}
	cfg.closeTwice = c.Chance(200)
	cfg.drainAfter = -1
	if cfg.closeAfter < 0 && c.Chance(200) {
		// the usual way of "keeping on reading" when the content is of no
		// interest any more: the package's own drain helper
		cfg.drainAfter = c.Draw(8)
		c.Fault("drain_with_discard_helper")
	}
	cfg.pickAsm = func() bool { return c.Draw(2) == 0 }
	cfg.size = func() int { return []int{1, 2, 3, 7, 64, 0, 1500}[c.Weighted(3, 2, 2, 2, 4, 1, 1)] }
	execC20(c, cfg)
}

// simC20sweep is the crash-point enumeration for the reader: one seeded small
// script (at most 3 batches, elements of at most 8 bytes), one seeded
// read-size sequence over {1, 2, 64} and one seeded schedule are fixed, and
// then Close is placed at EVERY consumer step - before the first read, after
// each read, after EOF - each placement executed in a fresh bubble.
func simC20sweep(c *sim.Ctx) {
	cfg := c20cfg{drainAfter: -1}
	cfg.loss = c.Chance(500)
	cfg.script = drawScript(c, c.Weighted(1, 3, 3, 2), 8)
	cfg.closeTwice = c.Chance(200)
	sizes := make([]int, 24)
	for i := range sizes {
		sizes[i] = []int{1, 2, 64}[c.Draw(3)]
	}
	sched := make([]bool, 64)
	for i := range sched {
		sched[i] = c.Draw(2) == 0
	}
	run := func(closeAfter int) int {
		si, pi := 0, 0
		cfg.closeAfter = closeAfter
		cfg.pickAsm = func() bool { pi++; return sched[(pi-1)%len(sched)] }
		cfg.size = func() int { si++; return sizes[(si-1)%len(sizes)] }
		return execC20(c, cfg)
	}
	n := run(-1) // read to EOF: counts the consumer steps there are
	for k := 0; k <= n+1; k++ {
		c.Fault("close_before_eof")
		run(k)
	}
	c.Probe("close_point_sweep")
}

// execC20 runs one configuration in a fresh bubble and returns the number of
// consumer steps (reads and the close) that were made.
func execC20(c *sim.Ctx, cfg c20cfg) (consumerSteps int) {
	loss, real, plan, closeAfter, closeTwice := cfg.loss, cfg.real, cfg.plan, cfg.closeAfter, cfg.closeTwice
	batches, elems, total := materialize(cfg.script)
	nb := len(batches)
	c.Ev("script", int64(nb), int64(len(elems)), int64(total), b2i(loss), int64(closeAfter))

	bubble.Run(c, func(b *bubble.B) {
		r := tcpreader.NewReaderStream()
		r.LossErrors = loss
		asm := b.NewActor("assembler")
		con := b.NewActor("consumer")
		// scheduling points between the channel operations of the reader:
		// sites 1 and 5 are on the assembler side, 2-4 on the consumer side
		tcpreader.VerifYield = func(site int) {
			if site == 1 || site == 5 {
				asm.Yield(site)
			} else {
				con.Yield(site)
			}
		}
		defer func() { tcpreader.VerifYield = nil }()
		started := 0 // batches whose Reassembled call has begun
		completed := false
		endSeen := false // (real assembler) a delivered batch carried the end of the stream
		asmStep := 0
		// the assembler side as a list of steps
		var asmSteps []func()
		for i := range batches {
			i := i
			asmSteps = append(asmSteps, func() {
				started = i + 1
				r.Reassembled(batches[i])
				// the assembler reuses the memory of a batch once the call returns
				for _, ra := range batches[i] {
					for k := range ra.Bytes {
						ra.Bytes[k] = 0xEE
					}
				}
			})
		}
		if !real {
			asmSteps = append(asmSteps, func() { completed = true; r.ReassemblyComplete() })
		} else {
			// the real tcpassembly.Assembler, fed by the C10 network, delivers into the reader
			tee := &teeStream{r: &r}
			tee.onBatch = func(rs []tcpassembly.Reassembly) {
				if len(rs) > 0 && rs[len(rs)-1].End {
					// (an End mark on an earlier element - a reset in the middle of
					// buffered data - does not end the stream for this assembler)
					endSeen = true
				}
				for _, ra := range rs {
					elems = append(elems, &elem{skip: ra.Skip, data: append([]byte(nil), ra.Bytes...), batch: started})
					total += len(ra.Bytes)
				}
				started++
			}
			tee.onFinish = func() { completed = true }
			a := tcpassembly.NewAssembler(tcpassembly.NewStreamPool(&factory{first: tee}))
			a.MaxBufferedPagesPerConnection, a.MaxBufferedPagesTotal = plan.PerConnLimit, plan.TotalLimit
			for i := range plan.Events {
				ev := plan.Events[i]
				switch ev.K {
				case tcpsim.EvPkt:
					if ev.P.Dir != 0 {
						continue
					}
					asmSteps = append(asmSteps, func() {
						t, _ := plan.TCP(ev.P)
						a.AssembleWithTimestamp(plan.Dirs[0].Net, t, tcpsim.T(ev.At))
					})
				case tcpsim.EvFlushT:
					asmSteps = append(asmSteps, func() {
						a.FlushWithOptions(tcpassembly.FlushOptions{T: tcpsim.T(ev.At - ev.Age)})
					})
				case tcpsim.EvFlushAll:
					asmSteps = append(asmSteps, func() { a.FlushAll() })
				}
			}
			c.Probe("real_assembler_run")
		}
		asmAll := false
		closedByConsumer := false
		cur := 0 // index of the element the reader is in
		var readLog bytes.Buffer
		eofSeen := 0
		// advance past fully consumed / empty elements; under LossErrors a gap
		// has to have been reported once before its element is left behind
		advance := func(fail func(string, string, string, string, ...any)) {
			for cur < len(elems) && elems[cur].off == len(elems[cur].data) {
				e := elems[cur]
				if loss && e.skip != 0 && !e.reported {
					fail("loss", "gap-not-reported", "Read", "element %d (skip %d, %d bytes) was passed without a DataLost error although LossErrors is set", cur, e.skip, len(e.data))
					e.reported = true
				}
				cur++
			}
		}
		readOnce := func(size int) {
			p := make([]byte, size)
			for i := range p {
				p[i] = 0x5A
			}
			n, err := r.Read(p)
			fail := con.Fail
			switch {
			case errors.Is(err, tcpreader.DataLost):
				if n != 0 {
					fail("read", "bytes-with-error", "Read", "Read returned %d bytes together with DataLost", n)
				}
				// the loss belongs to the next element that has not been entered yet
				for cur < len(elems) && elems[cur].off == len(elems[cur].data) && (elems[cur].skip == 0 || elems[cur].reported) {
					cur++
				}
				if cur >= len(elems) || elems[cur].skip == 0 || elems[cur].reported || !loss {
					fail("loss", "spurious-loss", "Read", "DataLost returned with no unreported gap in front (element %d, LossErrors %v)", cur, loss)
					return
				}
				if elems[cur].batch >= started {
					fail("read", "data-from-the-future", "Read", "loss reported for batch %d which has not been delivered", elems[cur].batch)
				}
				elems[cur].reported = true
			case errors.Is(err, io.EOF):
				if n != 0 {
					fail("read", "bytes-with-error", "Read", "Read returned %d bytes together with EOF", n)
				}
				eofSeen++
				if closedByConsumer {
					return
				}
				if !completed {
					fail("read", "early-eof", "Read", "EOF before the stream completed")
				}
				advance(fail)
				if cur < len(elems) {
					fail("read", "early-eof", "Read", "EOF with element %d of %d (%d bytes left) unread", cur, len(elems), len(elems[cur].data)-elems[cur].off)
				}
			case err != nil:
				fail("read", "unexpected-error", "Read", "Read returned %v", err)
			default:
				if eofSeen > 0 || closedByConsumer {
					fail("read", "data-after-eof", "Read", "Read returned %d bytes after EOF / Close", n)
					return
				}
				if n == 0 {
					if size != 0 {
						fail("read", "zero-read", "Read", "Read returned 0, nil for a %d-byte buffer", size)
					}
					return
				}
				// the n bytes are the next delivered bytes; one Read may take them
				// from several delivered slices, but never across a gap that has
				// not been reported (when losses are reported at all)
				for got := 0; got < n; {
					advance(fail)
					if cur >= len(elems) {
						fail("read", "invented-bytes", "Read", "Read returned %d bytes, %d of them after everything delivered had been read", n, n-got)
						return
					}
					e := elems[cur]
					if e.batch >= started {
						fail("read", "data-from-the-future", "Read", "data of batch %d read before it was delivered", e.batch)
					}
					if loss && e.skip != 0 && !e.reported {
						fail("loss", "gap-not-reported", "Read", "bytes of element %d (skip %d) returned before its loss was reported", cur, e.skip)
						e.reported = true
					}
					k := min(n-got, len(e.data)-e.off)
					if !bytes.Equal(p[got:got+k], e.data[e.off:e.off+k]) {
						fail("read", "wrong-bytes", "Read", "Read(%d) returned %d bytes that are not the next delivered bytes (element %d offset %d)", size, n, cur, e.off)
						return
					}
					e.off += k
					got += k
				}
				for _, x := range p[n:] {
					if x != 0x5A {
						fail("read", "wrote-past-n", "Read", "Read modified the buffer beyond the %d bytes it reported", n)
						break
					}
				}
				readLog.Write(p[:n])
			}
		}
		conSteps := 0
		conDone := false
		closes := 0
		drained := -1
		for steps := 0; steps < 600+12*len(asmSteps); steps++ {
			b.Settle()
			if real && endSeen && !completed && asm.AtGate() {
				// the Assemble/Flush call that delivered the FIN/RST has returned:
				// the assembler completes the stream in that same call, it does
				// not wait for a later flush
				c.Fail("liveness", "end-delivered-without-completion", "ReaderStream", "the assembler delivered the end of the stream through the reader and its call returned, but the stream was not completed (consumer %s)", consumerState(closedByConsumer, con.AtGate()))
			}
			asmCan := (asm.AtGate() && !asmAll) || asm.Yielded()
			conCan := (con.AtGate() && !conDone) || con.Yielded()
			if !asmCan && !conCan {
				break
			}
			pickAsm := asmCan && (!conCan || cfg.pickAsm())
			if pickAsm && asm.Yielded() {
				c.Ev("resume_assembler", int64(asm.Site))
				b.Resume(asm)
				continue
			}
			if !pickAsm && con.Yielded() {
				c.Ev("resume_consumer", int64(con.Site))
				b.Resume(con)
				continue
			}
			if pickAsm {
				i := asmStep
				asmStep++
				asmAll = asmStep == len(asmSteps)
				c.Ev("assembler_step", int64(i))
				b.Step(asm, asmSteps[i])
				continue
			}
			// consumer step
			if closeAfter >= 0 && conSteps >= closeAfter && closes == 0 {
				c.Ev("close")
				closes++
				closedByConsumer = true
				if started > 0 && !completed {
					all := true
					for _, e := range elems {
						all = all && e.off == len(e.data)
					}
					if all {
						c.Probe("closed_between_batches") // everything delivered so far was read, more is to come
					} else {
						c.Probe("closed_inside_a_batch")
					}
				}
				b.Step(con, func() {
					r.Close() // (whatever it returns: the property is about what happens next)
				})
				conSteps++
				continue
			}
			if closes > 0 {
				// after Close: EOF for ever, a second Close is harmless
				if closeTwice && closes == 1 {
					closes++
					c.Ev("close_again")
					b.Step(con, func() { r.Close() })
					continue
				}
				if eofSeen >= 2 {
					conDone = true
					continue
				}
				b.Step(con, func() { readOnce(8) })
				continue
			}
			if eofSeen >= 2 {
				conDone = true
				continue
			}
			if cfg.drainAfter >= 0 && conSteps >= cfg.drainAfter && drained < 0 {
				c.Ev("drain")
				conSteps++
				drained = 0
				b.Step(con, func() {
					drained = tcpreader.DiscardBytesToEOF(&r)
					if !completed {
						con.Fail("read", "early-eof", "DiscardBytesToEOF", "the drain helper returned (EOF) before the stream completed")
					}
					eofSeen = 2
				})
				continue
			}
			size := cfg.size()
			c.Ev("read", int64(size))
			conSteps++
			b.Step(con, func() { readOnce(size) })
		}
		c.State(c.Fingerprint()) // the sequence of controller choices = the interleaving
		b.Settle()
		for k := 0; k < 20 && (asm.Yielded() || con.Yielded()); k++ {
			// nothing else is enabled: let whoever is parked at a hook go on
			if asm.Yielded() {
				b.Resume(asm)
			}
			if con.Yielded() {
				b.Resume(con)
			}
		}
		// both sides must have run to completion
		if !completed || !asmAll || !asm.AtGate() {
			c.Fail("liveness", "assembler-wedged", "ReaderStream", "the assembler side is stuck (step %d of %d, completion %v) although the consumer %s", asmStep, len(asmSteps), completed, consumerState(closedByConsumer, con.AtGate()))
		}
		if !con.AtGate() {
			c.Fail("liveness", "consumer-wedged", "ReaderStream", "the consumer is stuck in Read/Close after the stream completed")
		}
		if !closedByConsumer {
			var fail = func(cl, k, w, f string, a ...any) { c.Fail(cl, k, w, f, a...) }
			if drained < 0 {
				advance(fail)
			}
			if drained >= 0 {
				// what was read plus what the helper says it discarded is what was delivered
				if readLog.Len()+drained != total {
					c.Fail("read", "bytes-missing", "DiscardBytesToEOF", "%d bytes read and %d discarded by the drain helper, %d were delivered", readLog.Len(), drained, total)
				}
				c.Probe("drained_to_eof")
			} else if cur != len(elems) {
				c.Fail("read", "bytes-missing", "Read", "consumer reached EOF having read %d of %d elements", cur, len(elems))
			} else if readLog.Len() != total {
				c.Fail("read", "bytes-missing", "Read", "read %d bytes, %d were delivered", readLog.Len(), total)
			}
			c.Probe("read_to_eof")
		} else {
			c.Probe("closed_early")

		}
		consumerSteps = conSteps
	})
	return
}

func consumerState(closed, atGate bool) string {
	if closed {
		return "closed the reader"
	}
	if atGate {
		return "keeps reading"
	}
	return "is blocked too"
}

func b2i(b bool) int64 {
	if b {
		return 1
	}
	return 0
}

var sims = map[string]sim.SimFunc{"c20": simC20, "c20asm": simC20asm, "c20sweep": simC20sweep}

func TestChild(t *testing.T) {
	bubble.T = t
	if !sim.ChildMain(sims) {
		t.Skip("not a child")
	}
}

func TestMain(m *testing.M) { os.Exit(m.Run()) }

// Package pktsrc hosts the simulation of gopacket.PacketSource (C16) inside
// a testing/synctest bubble: a scripted data source, a consumer, a canceller
// and a clock, released one at a time by a tape-driven controller.
package pktsrc

import (
	"bytes"
	"context"
	"errors"
	"fmt"
	"io"
	"os"
	"syscall"
	"testing"
	"time"

	"github.com/gopacket/gopacket"

	"verif/sim"
	"verif/sim/bubble"
)

type timeoutErr struct{}

func (timeoutErr) Error() string   { return "simulated read timeout" }
func (timeoutErr) Timeout() bool   { return true }
func (timeoutErr) Temporary() bool { return true }

type item struct {
	data []byte
	ci   gopacket.CaptureInfo
	err  error
	kind int // 0 packet, 1 timeout, 2 other transient, 3 terminal, 4 end of a concatenated sub-source
	// surface is the error the pull interface shows for this item when it is
	// not err itself (a concatenation reports plain io.EOF at its very end)
	surface error
}

// stub is the data source. Its read blocks (durably, on a bubble channel)
// until the controller supplies the next item.
type stub struct {
	feed                 chan item
	pending              bool
	reads                int
	zeroCopy             bool
	shared               []byte
	sharedUsed           int
	afterTerm            int // reads that started after a terminal error was returned
	termSeen             bool
	lastRet              time.Time
	cancelled            func() bool
	readsAfterCancelDone int
	concurrent           int // reads that began while another read was in progress
	zeroCalls            int // calls of the zero-copy read method
	// concatenation of finite sources: the sub-source that must be read now,
	// reads of a sub-source other than that one
	curSub, wrongSub int
}

// sub is one finite data source handed to ConcatFinitePacketDataSources; all
// subs draw from the one scripted stub, an item of kind 4 ends the current one.
type sub struct {
	st  *stub
	idx int
}

func (s *sub) ReadPacketData() ([]byte, gopacket.CaptureInfo, error) {
	if s.idx != s.st.curSub {
		s.st.wrongSub++
	}
	return s.st.read(false)
}

func (s *stub) read(shared bool) ([]byte, gopacket.CaptureInfo, error) {
	if s.termSeen {
		s.afterTerm++
	}
	s.reads++
	if s.pending {
		s.concurrent++
	}
	s.pending = true
	it := <-s.feed
	s.pending = false
	if it.kind == 3 {
		s.termSeen = true
	}
	if it.kind == 4 {
		s.curSub++
	}
	if it.err != nil {
		return nil, gopacket.CaptureInfo{}, it.err
	}
	if shared {
		// every packet comes back in the same backing buffer, overwritten by the next read
		for i := 0; i < s.sharedUsed; i++ {
			s.shared[i] = 0xAA
		}
		n := copy(s.shared, it.data)
		s.sharedUsed = n
		return s.shared[:n], it.ci, nil
	}
	return append([]byte(nil), it.data...), it.ci, nil
}

// The stub offers both calls, as pcap handles and the pcapgo readers do: the
// copying one returns memory that belongs to the caller, the zero-copy one
// always returns its one reused buffer.
func (s *stub) ReadPacketData() ([]byte, gopacket.CaptureInfo, error) { return s.read(false) }
func (s *stub) ZeroCopyReadPacketData() ([]byte, gopacket.CaptureInfo, error) {
	s.zeroCalls++
	return s.read(true)
}

var terminals = []error{io.EOF, io.ErrUnexpectedEOF, io.ErrNoProgress, io.ErrClosedPipe, io.ErrShortBuffer, syscall.EBADF, errors.New("read tcp: use of closed file")}

type got struct {
	p   gopacket.Packet
	err error
}

func simC16(c *sim.Ctx) {
	zero := c.Chance(400)
	channel := c.Chance(600)
	// decode options: any combination of NoCopy, Lazy, Pool (bit 0, 1, 2)
	opt := []int{0, 1, 2, 4, 3, 5, 6, 7}[c.Weighted(8, 4, 4, 4, 1, 2, 1, 1)]
	noCopy, lazy, pool := opt&1 != 0, opt&2 != 0, opt&4 != 0
	cancelAt := -1
	if channel && c.Chance(400) {
		cancelAt = c.Draw(30)
	}
	fastConsumer := c.Chance(500)
	// abandon: after the cancellation the consumer walks away without draining
	// the channel; the background reader must still stop (drawn here because
	// nothing after the cancellation may draw from the tape)
	abandon := cancelAt >= 0 && c.Chance(350)
	// the data source is a concatenation of 2-4 finite sources (copying sources only)
	nsub := 0
	if !zero && c.Chance(250) {
		nsub = 2 + c.Draw(3)
	}
	// what the data source tends to return in this run (packet, timeout, other
	// transient error, end of input): the usual mix, bursts of one kind of
	// transient error with nothing else in between, or hardly any error
	mix := [][]int{{6, 2, 1, 1}, {5, 0, 5, 0}, {5, 5, 0, 0}, {12, 0, 1, 1}, {3, 3, 3, 1}}[c.Weighted(5, 2, 2, 1, 1)]
	// decode options assigned to the packet source's fields after construction
	late := c.Chance(300)
	// the consumer asks for the channel a second time at this step (same channel, no second reader)
	again := -1
	toggle := false
	if channel && c.Chance(200) {
		again = c.Draw(20)
		// ... and the program switches NoCopy on before asking again
		toggle = c.Chance(500)
	}
	c.Ev("config", b2i(zero), b2i(channel), int64(opt), int64(cancelAt), b2i(abandon), int64(nsub), int64(again), b2i(late))
	bubble.Run(c, func(b *bubble.B) {
		st := &stub{feed: make(chan item), zeroCopy: zero, shared: make([]byte, 9216)}
		var ps *gopacket.PacketSource
		var opts []gopacket.PacketSourceOption
		if !late {
			if noCopy {
				opts = append(opts, gopacket.WithNoCopy(true))
			}
			if lazy {
				opts = append(opts, gopacket.WithLazy(true))
			}
			if pool {
				opts = append(opts, gopacket.WithPool(true))
			}
		}
		if zero {
			ps = gopacket.NewZeroCopyPacketSource(st, gopacket.DecodePayload, opts...)
		} else if nsub > 0 {
			var subs []gopacket.PacketDataSource
			for i := 0; i < nsub; i++ {
				subs = append(subs, &sub{st: st, idx: i})
			}
			ps = gopacket.NewPacketSource(gopacket.ConcatFinitePacketDataSources(subs...), gopacket.DecodePayload, opts...)
		} else {
			ps = gopacket.NewPacketSource(st, gopacket.DecodePayload, opts...)
		}
		if late {
			// the decode options are exported fields of the packet source: set
			// them after construction, as much existing code does
			if noCopy && !(lazy || pool) {
				ps.NoCopy = true
			} else if opt != 0 {
				ps.DecodeOptions = gopacket.DecodeOptions{NoCopy: noCopy, Lazy: lazy, Pool: pool}
			}
		}
		var sent []item       // packets the stub returned without error, in order
		var recv []got        // what the consumer obtained
		var origData [][]byte // bytes of each received packet at reception
		closed := false
		ctx, cancel := context.WithCancel(context.Background())
		defer cancel()
		cancelled := false
		sentBeforeCancel := 0 // packets the source had returned when the context was cancelled
		consumer := b.NewActor("consumer")
		var ch chan gopacket.Packet
		if channel {
			refused := false
			func() {
				defer func() {
					if r := recover(); r != nil {
						refused = true
					}
				}()
				ch = ps.PacketsCtx(ctx)
			}()
			if zero && noCopy {
				if !refused {
					// keep going: deliver packets and see them corrupted
					c.Soft("zero-copy", "not-refused", "PacketsCtx", "a zero-copy data source with NoCopy decoding was accepted on the channel interface")
				} else {
					c.Probe("zero_copy_nocopy_refused")
					return
				}
			} else if refused {
				c.Fail("channel", "refused", "PacketsCtx", "PacketsCtx panicked for a legal configuration (zero-copy %v, options %d)", zero, opt)
			}
		}
		pendingSubEOF := 0 // sub-sources of a concatenation that have been ended so far
		nextItem := func() (it item) {
			defer func() {
				// through a concatenation, any io.EOF (plain or wrapped) only ends the
				// current finite source; after the last one the whole reports io.EOF
				if nsub > 0 && it.err != nil && errors.Is(it.err, io.EOF) {
					if pendingSubEOF < nsub-1 {
						if it.kind == 3 {
							c.Faults["source_terminal_error"]--
						}
						it.kind = 4
						pendingSubEOF++
						c.Fault("sub_source_eof")
					} else {
						it.kind, it.surface = 3, io.EOF
					}
				}
			}()
			if nsub > 0 && c.Chance(150) {
				it.kind, it.err = 3, io.EOF
				if c.Chance(300) {
					it.err = fmt.Errorf("sub-source: %w", io.EOF)
				}
				c.Fault("source_terminal_error")
				return it
			}
			switch c.Weighted(mix...) {
			case 0:
				n := 1 + c.Draw(40)
				if c.Chance(60) {
					// nothing captured of a packet that was on the wire (snap length 0)
					n = 0
				} else if c.Chance(60) {
					// around and above the size of a pool block / an Ethernet MTU:
					// full-size and jumbo frames
					n = []int{1499, 1500, 1501, 1514, 1600 + c.Draw(7400)}[c.Draw(5)]
				}
				it.data = make([]byte, n)
				for i := range it.data {
					it.data[i] = byte(len(sent)*31 + i*7 + 1)
				}
				it.ci = gopacket.CaptureInfo{Timestamp: time.Unix(1_700_000_000+int64(len(sent)), 5).UTC(), CaptureLength: n, Length: n, InterfaceIndex: c.Draw(3)}
				if c.Chance(300) {
					it.ci.Length = n + 1 + c.Draw(100)
				}
				if c.Chance(200) {
					it.ci.AncillaryData = []interface{}{len(sent)}
				}
			case 1:
				it.kind, it.err = 1, timeoutErr{}
				c.Fault("source_timeout")
			case 2:
				// (EAGAIN counts as a timeout for net.Error; EINTR and plain errors do not)
				it.kind, it.err = 2, []error{fmt.Errorf("transient: %w", syscall.EAGAIN), fmt.Errorf("transient: %w", syscall.EINTR), errors.New("device busy, try again"), syscall.ENOBUFS}[c.Draw(4)]
				c.Fault("source_transient_error")
			case 3:
				it.kind = 3
				it.err = terminals[c.Draw(len(terminals))]
				if c.Chance(300) {
					it.err = fmt.Errorf("wrapped: %w", it.err)
				}
				c.Fault("source_terminal_error")
			}
			return it
		}
		consume := func() {
			if channel {
				p, ok := <-ch
				if !ok {
					closed = true
					return
				}
				recv = append(recv, got{p: p})
				origData = append(origData, append([]byte(nil), p.Data()...))
			} else {
				p, err := ps.NextPacket()
				recv = append(recv, got{p: p, err: err})
				if err == nil {
					origData = append(origData, append([]byte(nil), p.Data()...))
				} else {
					origData = append(origData, nil)
				}
			}
		}
		terminalReturned := false
		lastTerminalEOF := false // the terminal result was the io.EOF of the last finite source
		rereads := 0
		// what ends the run when the script has not: through a concatenation an
		// io.EOF would only end the current sub-source
		var termEOF error = io.EOF
		if nsub > 0 {
			termEOF = io.ErrClosedPipe
		}
		var pullErrs []error
		steps := 0
		idleAdvance := 0
		var afterCancel *item // what the read in progress at cancellation will return
		fillPm := 25
		if abandon {
			fillPm = 120 // cancellation while the reader is blocked on the full channel
		}
		fill := channel && ch != nil && c.Chance(fillPm)
		if fill {
			// back-pressure: nobody consumes, the source keeps producing until the
			// reader stops asking (its channel is full - 1000 slots in the shipped
			// code, but the size is the implementation's business; a reader that
			// has not stopped after 5000 packets is not called wrong, the run just
			// goes on without back-pressure)
			filled := false
			for k := 0; k < 5000; k++ {
				b.Settle()
				if !st.pending {
					filled = true
					break
				}
				it := item{data: []byte{byte(k), byte(k >> 8), 7}, ci: gopacket.CaptureInfo{Timestamp: time.Unix(1_700_000_000+int64(k), 0).UTC(), CaptureLength: 3, Length: 3}}
				sent = append(sent, it)
				st.feed <- it
			}
			fill = filled
			if !filled {
				c.Probe("no_backpressure_after_5000_packets")
			}
		}
		if fill {
			c.Fault("channel_filled")
			c.Probe("channel_full_backpressure")
		}
		for steps < 300 && !cancelled {
			steps++
			b.Settle()
			if closed && !st.pending {
				break
			}
			if !channel && terminalReturned && consumer.AtGate() {
				if nsub > 0 && lastTerminalEOF && rereads < 2 {
					// every finite source has reported io.EOF: the concatenation is at
					// its end and says so again however often it is asked, without
					// going back to a source
					rereads++
					c.Probe("concatenation_read_again_after_its_end")
					before := st.reads
					b.Step(consumer, func() {
						p, err := ps.NextPacket()
						// (which error value is the implementation's business: no packet
						// out of nowhere, and an error that says so)
						if err == nil || p != nil {
							consumer.Fail("concat", "no-end-of-input-after-the-end", "ConcatFinitePacketDataSources", "read again after all its sources had reported io.EOF, the concatenation returned packet %v, error %v (want: no packet, an error)", p != nil, err)
						}
					})
					if st.reads != before {
						c.Fail("concat", "wrong-source-read", "ConcatFinitePacketDataSources", "a finite source was read again after the concatenation had reached its end")
					}
					continue
				}
				break
			}
			if again >= 0 && steps >= again && consumer.AtGate() {
				again = -1
				c.Ev("packets_again")
				c.Probe("channel_requested_twice")
				useCtx := steps%2 == 0
				b.Step(consumer, func() {
					var ch2 chan gopacket.Packet
					if toggle && zero && !noCopy {
						// The reader goroutine is parked (in the source, in a send or in
						// its pause) and looks at the options only after its next read:
						// NoCopy is switched on, the channel asked for again - which has
						// to be refused like a first request - and switched off again
						// before anything else runs.
						c.Fault("nocopy_switched_on_before_second_request")
						ps.NoCopy = true
						refused := false
						func() {
							defer func() {
								if recover() != nil {
									refused = true
								}
							}()
							if useCtx {
								ps.PacketsCtx(context.Background())
							} else {
								ps.Packets()
							}
						}()
						ps.NoCopy = false
						if !refused {
							consumer.Fail("zero-copy", "not-refused", "Packets", "a zero-copy data source with NoCopy decoding was accepted on the channel interface when the channel was requested a second time (NoCopy switched on after the first request)")
						}
						return
					}
					if useCtx {
						ch2 = ps.PacketsCtx(context.Background())
					} else {
						ch2 = ps.Packets()
					}
					if ch2 != ch {
						consumer.Fail("channel", "second-call-new-channel", "PacketsCtx", "a second call of Packets/PacketsCtx returned a different channel")
					}
				})
				continue
			}
			// enabled actions
			type act int
			const (
				aSource act = iota
				aConsume
				aCancel
				aClock
			)
			var en []act
			var w []int
			if st.pending {
				en, w = append(en, aSource), append(w, 5)
			}
			if consumer.AtGate() && !(closed) {
				wt := 2
				if fastConsumer {
					wt = 6
				}
				if channel || !terminalReturned {
					en, w = append(en, aConsume), append(w, wt)
				}
			}
			if cancelAt >= 0 && !cancelled && steps >= cancelAt {
				en, w = append(en, aCancel), append(w, 8)
			}
			if len(en) == 0 || (channel && !st.pending) {
				en, w = append(en, aClock), append(w, 2)
			}
			a := en[c.Weighted(w...)]
			switch a {
			case aSource:
				it := nextItem()
				if cancelled && !closed {
					// the read in progress at cancellation returns; whatever it returns, no new read may start
				}
				if it.kind == 0 {
					sent = append(sent, it)
				}
				if it.kind == 3 {
					terminalReturned = true
					lastTerminalEOF = nsub > 0 && it.surface == io.EOF && errors.Is(it.err, io.EOF)
				}
				if it.kind != 0 && it.kind != 4 && !channel {
					if it.surface != nil {
						pullErrs = append(pullErrs, it.surface)
					} else {
						pullErrs = append(pullErrs, it.err) // (the end of a concatenated sub-source is not an error of the whole)
					}
				}
				c.Ev("source_returns", int64(it.kind), int64(len(it.data)))
				readsBefore := st.reads
				st.feed <- it
				b.Settle()
				if channel && (it.kind == 1 || it.kind == 2) && !cancelled {
					// a transient error costs only time: the source is read again
					// within a bounded time (how long the reader pauses, and whether
					// it backs off, is its own business; 5 simulated seconds is far
					// beyond any pause that could be called a retry)
					waited := time.Duration(0)
					for !(st.pending && st.reads > readsBefore) && waited < 5*time.Second {
						step := 5 * time.Millisecond
						if waited >= 100*time.Millisecond {
							step = 100 * time.Millisecond
						}
						time.Sleep(step)
						c.Advance(step)
						waited += step
						b.Settle()
					}
					if !(st.pending && st.reads > readsBefore) {
						c.Fail("transient", "not-retried", "packetsToChannel", "5 s after a transient error (kind %d) the source has not been read again", it.kind)
					}
					c.Probe("retry_after_transient_error")
				}
				if cancelled {
					// after cancellation, once the read in progress has returned, no new read starts
					time.Sleep(20 * time.Millisecond)
					c.Advance(20 * time.Millisecond)
					b.Settle()
					if st.pending {
						c.Fail("cancel", "read-started-after-cancel", "packetsToChannel", "the context was cancelled and the read in progress returned, yet the source is being read again")
					}
				}
			case aConsume:
				c.Ev("consume")
				b.Step(consumer, consume)
			case aCancel:
				c.Ev("cancel")
				c.Fault("context_cancelled")
				cancelled = true
				sentBeforeCancel = len(sent)
				if fill && sentBeforeCancel > 0 {
					sentBeforeCancel-- // the packet blocked on the full channel is in flight too
				}
				if st.pending {
					c.Probe("cancel_during_read")
					// Drawn now: whether a packet returned by that read is still
					// delivered is decided by Go's select among ready cases, which
					// the simulator does not own, so nothing after this point may
					// depend on it (no further tape draws, no further log events).
					it := nextItem()
					if it.kind == 4 {
						// (a sub-source ending here would make the concatenation read
						// its next source inside the same call: keep the oracle simple)
						it.kind, it.err = 3, io.ErrClosedPipe
					}
					afterCancel = &it
				}
				cancel()
				b.Settle()
				if !st.pending {
					// reader was not inside a read: it must be gone within its 5 ms sleep
					time.Sleep(6 * time.Millisecond)
					c.Advance(6 * time.Millisecond)
					b.Settle()
					if st.pending {
						c.Fail("cancel", "read-started-after-cancel", "packetsToChannel", "a new source read started after the context had been cancelled")
					}
				}
			case aClock:
				d := time.Duration(1+c.Draw(10)) * time.Millisecond
				time.Sleep(d)
				c.Advance(d)
				if len(en) == 1 {
					idleAdvance++
				} else {
					idleAdvance = 0
				}
				if idleAdvance > 2000 { // (some 10 simulated seconds with nothing enabled but the clock)
					c.Fail("liveness", "no-progress", "PacketSource", "nothing is enabled but the clock: the run cannot finish")
				}
			}
		}
		// ---- wind down ----
		if channel {
			if closed && !cancelled && !terminalReturned {
				c.Fail("shutdown", "channel-closed-without-end-of-input", "packetsToChannel", "the packet channel was closed although the data source never reported end of input and the context was not cancelled (%d packets, %d read calls so far)", len(sent), st.reads)
			}
			if !cancelled && !terminalReturned {
				// end the run: the source reports end of input
				for k := 0; k < 50 && !terminalReturned; k++ {
					b.Settle()
					if st.pending {
						terminalReturned = true
						st.termSeen = true
						st.feed <- item{kind: 3, err: termEOF}
					} else if consumer.AtGate() && !closed {
						b.Step(consumer, consume)
					} else {
						time.Sleep(5 * time.Millisecond)
					}
					if closed && !terminalReturned {
						c.Fail("shutdown", "channel-closed-without-end-of-input", "packetsToChannel", "the packet channel was closed although the data source never reported end of input and the context was not cancelled (%d packets, %d read calls so far)", len(sent), st.reads)
					}
				}
				if !terminalReturned {
					c.Fail("liveness", "reader-stopped-reading", "packetsToChannel", "the data source has not been read again for 250 ms of simulated time although it never reported end of input and the context was not cancelled")
				}
			}
			if cancelled && st.pending {
				it := item{kind: 3, err: termEOF}
				if afterCancel != nil {
					it = *afterCancel
				}
				if it.kind == 0 {
					sent = append(sent, it)
				}
				if it.kind == 3 {
					st.termSeen = true
				}
				st.feed <- it
				b.Settle()
				// once the read in progress has returned, no new read starts
				time.Sleep(20 * time.Millisecond)
				b.Settle()
				if st.pending {
					c.Fail("cancel", "read-started-after-cancel", "packetsToChannel", "the context was cancelled and the read in progress returned (kind %d), yet the source is being read again", it.kind)
				}
			}
			if cancelled && abandon {
				// Nobody receives any more. "Cancelling the context stops the
				// background reader as soon as its current read returns": the reader
				// may be parked on a full channel, in its retry sleep or between
				// reads, and must be gone shortly after - a goroutine still alive at
				// the end of the bubble is reported by synctest as a deadlock.
				time.Sleep(50 * time.Millisecond)
				b.Settle()
				if st.pending {
					c.Fail("cancel", "read-started-after-cancel", "packetsToChannel", "the context was cancelled, nobody consumes, and the source is being read again")
				}
				c.Probe("cancelled_and_abandoned")
				if fill {
					c.Probe("cancelled_while_blocked_on_full_channel")
				}
				b.DeadClause = [3]string{"cancel", "reader-goroutine-left", "packetsToChannel"}
				b.DeadDetail = "the context was cancelled, the read in progress returned and the consumer stopped receiving, yet the background reader of the packet source never exited (still blocked when the bubble ended)"
				b.Finish()
				return
			}
			// drain
			for k := 0; k < 12000 && !closed; k++ {
				b.Settle()
				if consumer.InCall() {
					// blocked on an empty, unclosed channel: the reader has nothing
					// to wait for any more and must close it promptly (the shipped
					// reader is at most one 5 ms pause away from noticing)
					time.Sleep(50 * time.Millisecond)
					b.Settle()
					if consumer.InCall() {
						c.Fail("shutdown", "channel-not-closed", "packetsToChannel", "after end of input / cancellation the packet channel was never closed (consumer blocked for ever)")
					}
					continue
				}
				b.Step(consumer, consume)
			}
			if !closed {
				c.Fail("shutdown", "channel-not-closed", "packetsToChannel", "channel still open after draining")
			}
			if st.afterTerm > 0 {
				c.Fail("shutdown", "read-after-end-of-input", "packetsToChannel", "the data source was read %d more times after it had reported end of input", st.afterTerm)
			}
			if st.pending {
				c.Fail("shutdown", "reader-still-running", "packetsToChannel", "the background reader is inside a source read after the channel was closed")
			}
		}
		if !channel && st.pending {
			st.feed <- item{kind: 3, err: termEOF}
			pullErrs = append(pullErrs, termEOF)
			b.Settle()
		}
		if st.concurrent > 0 {
			c.Fail("once", "concurrent-source-reads", "PacketSource", "the data source was read %d times while another read was still in progress (a second background reader?)", st.concurrent)
		}
		if st.wrongSub > 0 {
			c.Fail("concat", "wrong-source-read", "ConcatFinitePacketDataSources", "%d reads went to a finite source other than the current one (an exhausted one read again, or one skipped)", st.wrongSub)
		}
		if nsub > 0 {
			c.Probe("concatenated_sources")
		}
		// ---- order / once / intact ----
		if pool {
			// the program goes on decoding with the Pool option while it still
			// holds the packets it was given: they keep their blocks
			var more []gopacket.Packet
			for i := 0; i < 4; i++ {
				more = append(more, gopacket.NewPacket(bytes.Repeat([]byte{0xE0 + byte(i)}, 24), gopacket.DecodePayload, gopacket.DecodeOptions{Pool: true}))
			}
			defer func() {
				for _, p := range more {
					if pp, ok := p.(gopacket.PooledPacket); ok {
						pp.Dispose()
					}
				}
			}()
			c.Probe("pooled_decodes_after_the_run")
		}
		want := sent
		var gotP []got
		for _, g := range recv {
			if g.err == nil {
				gotP = append(gotP, g)
			}
		}
		if cancelled {
			// packets up to the one in flight at cancellation must all be there,
			// the one in flight may or may not be, later ones may be dropped
			if len(gotP) < sentBeforeCancel {
				c.Fail("once", "lost", "PacketSource", "%d packets had been read and queued before the cancellation, the consumer got only %d", sentBeforeCancel, len(gotP))
			}
			if len(gotP) > len(want) {
				c.Fail("once", "duplicate-or-invented", "PacketSource", "consumer got %d packets, the source produced %d", len(gotP), len(want))
			}
			want = want[:len(gotP)]
		} else if len(gotP) != len(want) {
			c.Fail("once", "lost-or-duplicated", "PacketSource", "the source produced %d packets, the consumer got %d (channel interface %v)", len(want), len(gotP), channel)
		}
		k := 0
		for i, g := range recv {
			if g.err != nil {
				continue
			}
			it := want[k]
			k++
			m := g.p.Metadata()
			first := origData[i]
			if !bytes.Equal(first, it.data) {
				if zero && noCopy && channel {
					c.Soft("zero-copy", "corrupted-packet-delivered", "PacketsCtx", "packet %d delivered through the channel with a zero-copy source and NoCopy decoding does not hold the bytes it was read with", k-1)
					continue
				}
				c.Fail("order", "wrong-packet", "PacketSource", "packet %d: got %d bytes %x..., the source's packet %d was %d bytes", k-1, len(first), head(first), k-1, len(it.data))
			}
			if m.Timestamp != it.ci.Timestamp || m.CaptureLength != it.ci.CaptureLength || m.Length != it.ci.Length || m.InterfaceIndex != it.ci.InterfaceIndex || len(m.AncillaryData) != len(it.ci.AncillaryData) {
				c.Fail("metadata", "capture-info-differs", "PacketSource", "packet %d carries %+v, was read with %+v", k-1, m.CaptureInfo, it.ci)
			}
			if m.Truncated != (it.ci.CaptureLength < it.ci.Length) {
				c.Fail("metadata", "truncated-flag", "PacketSource", "packet %d: Truncated=%v with capture length %d of %d", k-1, m.Truncated, it.ci.CaptureLength, it.ci.Length)
			}
			// a delivered packet is never altered by later reads (copying decode)
			// (also with NoCopy when the data source is a copying one: what
			// ReadPacketData returned belongs to the packet)
			if !(noCopy && zero) && !bytes.Equal(g.p.Data(), it.data) {
				c.Fail("intact", "altered-by-later-read", "PacketSource", "packet %d changed after later reads of the data source (zero-copy source %v, options %d)", k-1, zero, opt)
			}
		}
		if !channel {
			// pull interface: errors surface to the caller in order
			var gotErrs []error
			for _, g := range recv {
				if g.err != nil {
					gotErrs = append(gotErrs, g.err)
				}
			}
			if len(gotErrs) != len(pullErrs) {
				c.Fail("pull", "errors-differ", "NextPacket", "source returned %d errors, NextPacket returned %d", len(pullErrs), len(gotErrs))
			}
			for i := range gotErrs {
				// (the source's own error value or something that wraps it)
				if gotErrs[i] != pullErrs[i] && !errors.Is(gotErrs[i], pullErrs[i]) {
					c.Fail("pull", "errors-differ", "NextPacket", "error %d: got %v, source returned %v", i, gotErrs[i], pullErrs[i])
				}
			}
		}
		if len(sent) >= 3 {
			c.Probe("three_or_more_packets")
		}
		c.State(c.Fingerprint()) // the sequence of controller choices = the interleaving
		b.Finish()
	})
}

func head(b []byte) []byte {
	if len(b) > 8 {
		return b[:8]
	}
	return b
}

func b2i(b bool) int64 {
	if b {
		return 1
	}
	return 0
}

var sims = map[string]sim.SimFunc{"c16": simC16}

func TestChild(t *testing.T) {
	bubble.T = t
	if !sim.ChildMain(sims) {
		t.Skip("not a child")
	}
}

func TestMain(m *testing.M) { os.Exit(m.Run()) }

// Package defrag hosts the simulation of the IPv4/IPv6 defragmenters (C13):
// fragmenting senders, a reordering/duplicating/dropping network, a hostile
// injector and a simulated clock in front of the real defragmenters.
package defrag

import (
	"bytes"
	"net"
	"os"
	"sort"
	"testing"
	"time"

	"github.com/gopacket/gopacket/ip4defrag"
	"github.com/gopacket/gopacket/ip6defrag"
	"github.com/gopacket/gopacket/layers"

	"verif/sim"
	"verif/sim/bubble"
)

var base = time.Date(2022, 2, 2, 2, 2, 2, 0, time.UTC)

type frag struct {
	key     int // index of (src,dst,id)
	dg      int // datagram index, -1 for hostile
	off     int // byte offset
	payload []byte
	more    bool
	ihl     int
	opts    []byte
	whole   bool // unfragmented packet
	df      bool
	hostile string
	declLen int // declared total length; 0 = consistent
}

type event struct {
	at      int64
	ord     int
	f       *frag
	discard int64 // >0: DiscardOlderThan(now - discard)
}

type datagram struct {
	key     int
	payload []byte
	ihl     int
	opts    []byte
}

// per-key model instance: what has been received since the last completion
// or discard
type inst struct {
	recv       []*frag
	dg         int  // the single datagram all fragments belong to, -2 when mixed/hostile
	mixed      bool // only the safety rule applies
	lastAny    int64
	lastAccept int64
	has        bool
}

func fill(seed uint64, n int) []byte {
	b := make([]byte, n)
	x := seed
	for i := range b {
		x = x*6364136223846793005 + 1442695040888963407
		b[i] = byte(x >> 33)
	}
	return b
}

func mkOpts(c *sim.Ctx, ihl int) []byte {
	n := (ihl - 5) * 4
	if n == 0 {
		return nil
	}
	// one option of type 0x44-ish filling the space (type, length, data)
	b := fill(uint64(ihl)*77, n)
	b[0] = 0x88 // stream id class option (copied), arbitrary
	b[1] = byte(n)
	return b
}

// keyAddr gives the addresses of key k. Odd keys are the reverse direction
// of the key before them (same two hosts, and the same identification, see
// keyID): the answer to a fragmented request is often fragmented too.
func keyAddr(k int, dst bool) net.IP {
	a, b := net.IP{10, 0, 0, byte(1 + (k/2)%3)}, net.IP{10, 9, 0, byte(1 + (k/2)/3)}
	if k%2 == 1 {
		a, b = b, a
	}
	if dst {
		return b
	}
	return a
}

func keyID(k int) uint16 { return uint16(100 + k/2) }

func ip4Layer(f *frag, k int, id uint16) *layers.IPv4 {
	ip := &layers.IPv4{
		Version: 4, IHL: uint8(f.ihl), TOS: 3, Id: id, TTL: 61, Protocol: layers.IPProtocolUDP,
		SrcIP: keyAddr(k, false), DstIP: keyAddr(k, true),
		FragOffset: uint16(f.off / 8),
	}
	if f.more {
		ip.Flags |= layers.IPv4MoreFragments
	}
	if f.df {
		ip.Flags |= layers.IPv4DontFragment
	}
	if len(f.opts) > 0 {
		ip.Options = []layers.IPv4Option{{OptionType: f.opts[0], OptionLength: f.opts[1], OptionData: f.opts[2:]}}
	}
	ip.Length = uint16(f.ihl*4 + len(f.payload))
	if f.declLen != 0 {
		ip.Length = uint16(f.declLen)
	}
	ip.Payload = f.payload
	return ip
}

func simC13v4(c *sim.Ctx) { runC13v4(c, false) }

// simC13v4clock is the same simulation through DefragIPv4, which stamps the
// fragment lists with time.Now() itself: it runs inside a synctest bubble
// whose fake clock the harness advances to each event's time.
func simC13v4clock(c *sim.Ctx) {
	bubble.Run(c, func(b *bubble.B) {
		runC13v4(c, true)
		c.Probe("defragmented_on_simulated_clock")
	})
}

func runC13v4(c *sim.Ctx, clock bool) {
	base := base
	if clock {
		base = time.Now()
	}
	// ---- plan ----
	nkeys := 1 + c.Weighted(5, 3, 1, 1)
	ndg := 1 + c.Weighted(4, 3, 2, 1)
	hostileRun := c.Chance(250)
	manyFrags := c.Chance(8)
	reorderPm := []int{0, 150, 500, 1000}[c.Weighted(2, 2, 2, 2)]
	dupPm := []int{0, 80, 300}[c.Weighted(3, 2, 1)]
	dropPm := []int{0, 0, 60}[c.Weighted(3, 1, 1)]
	shortHdrLater := c.Chance(300) // non-first fragments carry only a 20-byte header
	var dgs []*datagram
	var evs []event
	ord := 0
	add := func(at int64, f *frag) {
		evs = append(evs, event{at: at, ord: ord, f: f})
		ord++
	}
	t := int64(0)
	for di := 0; di < ndg; di++ {
		dg := &datagram{key: c.Draw(nkeys)}
		n := 0
		szClass := c.Weighted(8, 8, 4, 2, 1)
		switch szClass {
		case 0:
			n = 9 + c.Draw(64)
		case 1:
			n = 9 + c.Draw(600)
		case 2:
			n = 9 + c.Draw(4000)
		case 3:
			n = 9 + c.Draw(65506)
		}
		dg.ihl = 5
		if c.Chance(350) {
			dg.ihl = 6 + c.Draw(10)
		}
		if szClass == 4 {
			// the largest datagrams there are: header + payload = 65535 down to 65520
			n = 65535 - dg.ihl*4 - c.Draw(16)
			c.Fault("maximal_datagram")
		}
		if dg.ihl*4+n > 65535 {
			n = 65535 - dg.ihl*4
		}
		if manyFrags && di == 0 {
			n = 8*8200 - 16
			if n+dg.ihl*4 > 65535 {
				n = (65535 - dg.ihl*4) &^ 7
			}
			if c.Chance(500) {
				// as many fragments as a datagram can have: a maximal payload cut
				// every 8 bytes, the last piece 1-7 bytes long
				n = 65535 - dg.ihl*4 - c.Draw(8)
			}
		}
		dg.opts = mkOpts(c, dg.ihl)
		dg.payload = fill(uint64(di)*1315423911+uint64(c.Tape.Used()), n)
		dgs = append(dgs, dg)
		t += int64(c.Draw(6)) * 400_000
		if c.Chance(120) {
			// unfragmented: passes through
			add(t, &frag{key: dg.key, dg: di, payload: dg.payload, ihl: dg.ihl, opts: dg.opts, whole: true, df: c.Draw(2) == 1})
			continue
		}
		// cut at multiples of 8
		var cuts []int
		if manyFrags && di == 0 {
			for o := 8; o < n; o += 8 {
				cuts = append(cuts, o)
			}
			c.Fault("many_fragments")
		} else {
			nf := 2 + c.Draw(7)
			for i := 1; i < nf; i++ {
				if n/8 < 2 {
					break
				}
				cuts = append(cuts, 8*(1+c.Draw(n/8)))
			}
			if n > 8 && c.Chance(250) {
				// the last fragment is as short as a fragment can be: cut at the
				// last 8-byte boundary
				cuts = append(cuts, (n-1)&^7)
				c.Fault("short_final_fragment")
			}
		}
		sort.Ints(cuts)
		prev := 0
		var frags []*frag
		for _, cu := range append(cuts, n) {
			if cu <= prev || cu > n {
				continue
			}
			f := &frag{key: dg.key, dg: di, off: prev, payload: dg.payload[prev:cu], more: cu < n, ihl: dg.ihl, opts: dg.opts}
			if shortHdrLater && prev > 0 {
				f.ihl, f.opts = 5, nil
			}
			frags = append(frags, f)
			prev = cu
		}
		if len(frags) < 2 {
			// could not be split: send as a whole packet
			add(t, &frag{key: dg.key, dg: di, payload: dg.payload, ihl: dg.ihl, opts: dg.opts, whole: true})
			continue
		}
		for i, f := range frags {
			at := t + int64(i)*10_000
			if c.Chance(dropPm) {
				c.Fault("drop")
				continue
			}
			if c.Chance(reorderPm) {
				c.Fault("reorder")
				at += int64(c.Draw(len(frags)*3+2)) * 10_000
			}
			add(at, f)
			if c.Chance(dupPm) {
				c.Fault("duplicate")
				add(at+int64(1+c.Draw(40))*10_000, f)
			}
		}
		t += int64(len(frags)) * 10_000
		if hostileRun && c.Chance(500) {
			// hostile injector on this key
			for k := 0; k < 1+c.Draw(3); k++ {
				h := &frag{key: dg.key, dg: -1, ihl: 5, more: c.Draw(2) == 0}
				switch c.Weighted(4, 2, 1, 1) {
				case 0: // overlapping, conflicting bytes
					h.hostile = "overlap"
					h.off = 8 * c.Draw(n/8+1)
					h.payload = fill(uint64(c.Tape.Used())*7+1, 8+c.Draw(64))
				case 1: // a fragment far ahead leaving a hole
					h.hostile = "hole"
					h.off = 8 * (n/8 + 2 + c.Draw(50))
					h.payload = fill(uint64(c.Tape.Used())*7+2, 8+c.Draw(32))
				case 2: // undersized non-final fragment
					h.hostile = "undersized"
					h.off = 8 * c.Draw(n/8+1)
					h.payload = fill(3, 1+c.Draw(7))
					h.more = true
				case 3: // beyond 65535
					h.hostile = "oversize"
					h.off = 8 * (8100 + c.Draw(91))
					h.payload = fill(4, 600+c.Draw(900))
				}
				c.Fault("hostile_" + h.hostile)
				add(t-int64(c.Draw(len(frags)*2+1))*10_000+5, h)
			}
		}
	}
	if hostileRun && c.Chance(300) {
		// a complete, hole-free set whose payload alone still fits 16 bits but
		// which, with its header, does not: every fragment but the last is
		// unobjectionable, the last one must be refused
		ihl := 5
		if c.Chance(400) {
			ihl = 6 + c.Draw(10)
		}
		n := 65535 - ihl*4 + 1 + c.Draw(ihl*4)
		key := c.Draw(nkeys)
		body := fill(uint64(c.Tape.Used())*13+5, n)
		var cuts []int
		for i := c.Draw(4); i > 0; i-- {
			cuts = append(cuts, 8*(1+c.Draw(n/8)))
		}
		// (every single fragment is a possible IP packet: header + piece <= 65535,
		// so a piece that is too long gets one more cut in its middle)
		for again := true; again; {
			again = false
			sort.Ints(cuts)
			prev := 0
			for _, cu := range append(append([]int(nil), cuts...), n) {
				if cu-prev > 65535-ihl*4 {
					cuts = append(cuts, (prev+(cu-prev)/2)&^7)
					again = true
					break
				}
				if cu > prev {
					prev = cu
				}
			}
		}
		sort.Ints(cuts)
		prev := 0
		t += 400_000
		for _, cu := range append(cuts, n) {
			if cu <= prev {
				continue
			}
			h := &frag{key: key, dg: -1, off: prev, payload: body[prev:cu], more: cu < n, ihl: ihl, opts: mkOpts(c, ihl), hostile: "part-of-oversize-total"}
			if cu == n {
				h.hostile = "oversize"
			}
			at := t
			t += 10_000
			if c.Chance(reorderPm) && cu < n {
				at += int64(c.Draw(8)) * 10_000
			}
			add(at, h)
			prev = cu
		}
		c.Fault("hostile_oversize_total")
	}
	// discard timers
	for i := c.Weighted(3, 2, 1); i > 0; i-- {
		at := int64(c.Draw(int(t/10_000)+20)) * 10_000
		evs = append(evs, event{at: at + 7, ord: ord, discard: int64(1+c.Draw(60)) * 10_000})
		ord++
	}
	sort.SliceStable(evs, func(i, j int) bool {
		if evs[i].at != evs[j].at {
			return evs[i].at < evs[j].at
		}
		return evs[i].ord < evs[j].ord
	})

	if clock && len(evs) > 0 && evs[0].at < 0 {
		// (the hostile injector may date fragments before time zero; a clock
		// that the defragmenter reads itself cannot be set back: shift the run)
		shift := -evs[0].at
		for i := range evs {
			evs[i].at += shift
		}
	}
	// ---- run ----
	d := ip4defrag.NewIPv4Defragmenter()
	insts := make([]*inst, nkeys)
	for i := range insts {
		insts[i] = &inst{dg: -3}
	}
	c.Ev("plan", int64(nkeys), int64(len(dgs)), int64(len(evs)), b2i(hostileRun))
	var ring, ringCopy []byte
	if !manyFrags && c.Chance(300) {
		ring = make([]byte, 0, 1<<18)
		c.Fault("fragments_share_a_capture_buffer")
	}
	ringCheck := func() {
		if ring != nil && !bytes.Equal(ring, ringCopy) {
			c.Fail("safety", "fragment-memory-written", "DefragIPv4", "the capture buffer the fragments were decoded in was written to by the defragmenter")
		}
	}
	defer ringCheck()
	var last int64
	for _, e := range evs {
		if e.at > last {
			c.Advance(time.Duration(e.at - last))
			last = e.at
		}
		now := base.Add(time.Duration(e.at))
		if e.discard > 0 {
			cut := e.at - e.discard
			n := d.DiscardOlderThan(base.Add(time.Duration(cut)))
			c.Ev("discard", e.at, e.discard, int64(n))
			c.Fault("discard_timer")
			for _, in := range insts {
				if !in.has {
					continue
				}
				switch {
				case in.lastAny < cut:
					*in = inst{dg: -3}
					c.Probe("partial_datagram_discarded")
				case in.lastAccept >= cut:
				default:
					in.mixed = true // only ignored duplicates since: either outcome
				}
			}
			continue
		}
		f := e.f
		ip := ip4Layer(f, f.key, keyID(f.key))
		if ring != nil {
			// the fragments' payloads lie one behind the other in a capture
			// buffer, in the order of arrival, each a slice with the rest of the
			// buffer as spare capacity (decoded in place, as with NoCopy)
			if len(ring)+len(f.payload) > cap(ring) {
				ring = make([]byte, 0, cap(ring))
				ringCopy = ringCopy[:0]
			}
			at := len(ring)
			ring = append(ring, f.payload...)
			ringCopy = append(ringCopy, f.payload...)
			ip.Payload = ring[at:len(ring)]
		}
		c.Ev("frag", int64(f.key), int64(f.dg), int64(f.off), int64(len(f.payload)), b2i(f.more), int64(f.ihl), b2i(f.whole), e.at)
		var out *layers.IPv4
		var err error
		if clock {
			if dt := time.Until(now); dt > 0 {
				time.Sleep(dt)
			}
			out, err = d.DefragIPv4(ip)
		} else {
			out, err = d.DefragIPv4WithTimestamp(ip, now)
		}
		c.Ev("ret", b2i(out != nil), b2i(err != nil))
		in := insts[f.key]
		{
			// abstract state: per key (fragments held bucket, final seen, mixed), last outcome
			var acc uint64 = 1469598103934665603
			for _, x := range insts {
				fin := false
				for _, r := range x.recv {
					fin = fin || !r.more
				}
				n := len(x.recv)
				if n > 6 {
					n = 6 + n/1000
				}
				acc = (acc ^ uint64(n) ^ uint64(b2i(fin))<<8 ^ uint64(b2i(x.mixed))<<9) * 1099511628211
			}
			c.State(acc ^ uint64(b2i(out != nil))<<1 ^ uint64(b2i(err != nil)))
		}
		if f.whole || (!f.more && f.off == 0) {
			// by definition not a fragment (MF clear, offset 0)
			// "pass through unchanged": the same layer, or one that says the same
			if err != nil || out == nil || (out != ip && !(out.Id == ip.Id && out.Length == ip.Length && out.IHL == ip.IHL && out.Flags == ip.Flags && out.FragOffset == ip.FragOffset && out.Protocol == ip.Protocol && out.TTL == ip.TTL && out.SrcIP.Equal(ip.SrcIP) && out.DstIP.Equal(ip.DstIP) && bytes.Equal(out.Payload, ip.Payload))) {
				c.Fail("passthrough", "changed", "DefragIPv4", "unfragmented packet (DF=%v) not returned as is: out==in %v err=%v", f.df, out == ip, err)
			}
			c.Probe("unfragmented_passthrough")
			continue
		}
		// model update: was the fragment taken into account?
		rejected := false
		if f.hostile == "undersized" || f.hostile == "oversize" {
			// must be refused: an error or nothing, and never part of a result
			if out != nil {
				c.Fail("hostile", "accepted", "DefragIPv4", "%s fragment produced a datagram", f.hostile)
			}
			rejected = err != nil
			if rejected {
				continue
			}
		}
		in.lastAny = e.at
		dupOf := false
		for _, r := range in.recv {
			if r.off == f.off && bytes.Equal(r.payload, f.payload) && r.more == f.more {
				dupOf = true
			}
		}
		if !dupOf {
			in.lastAccept = e.at
		}
		in.has = true
		in.recv = append(in.recv, f)
		if f.dg < 0 {
			in.mixed = true
		} else if in.dg == -3 {
			in.dg = f.dg
		} else if in.dg != f.dg {
			in.mixed = true
			c.Probe("key_collision_mixed")
		}
		if out != nil {
			checkOut4(c, out, in, dgs, f)
			*in = inst{dg: -3}
			continue
		}
		if !in.mixed {
			// benign instance: complete coverage must have produced a datagram
			dg := dgs[in.dg]
			if covered(in.recv, len(dg.payload)) {
				c.Fail("reassembly", "not-returned", "DefragIPv4", "all fragments of datagram %d (payload %d bytes, ihl %d, %d fragments received) have arrived but nothing was returned (err=%v)", in.dg, len(dg.payload), dg.ihl, len(in.recv), err)
			}
			if err != nil {
				c.Fail("reassembly", "error-on-benign", "DefragIPv4", "benign fragment of datagram %d rejected: %v", in.dg, err)
			}
		}
	}
}

// tiled reports whether p is a row of whole received fragments, the first at
// offset 0, each starting where the one before ends.
func tiled(p []byte, recv []*frag) bool {
	byOff := append([]*frag(nil), recv...)
	sort.SliceStable(byOff, func(i, j int) bool { return byOff[i].off < byOff[j].off })
	reach := map[int]bool{0: true}
	for _, r := range byOff {
		// (every fragment has at least one byte, so one pass in offset order does)
		e := r.off + len(r.payload)
		if reach[r.off] && !reach[e] && e <= len(p) && bytes.Equal(p[r.off:e], r.payload) {
			reach[e] = true
		}
	}
	return reach[len(p)]
}

func covered(recv []*frag, total int) bool {
	cov := make([]bool, total)
	final := false
	for _, r := range recv {
		for i := range r.payload {
			if r.off+i < total {
				cov[r.off+i] = true
			}
		}
		if !r.more {
			final = true
		}
	}
	if !final {
		return false
	}
	for _, b := range cov {
		if !b {
			return false
		}
	}
	return true
}

func checkOut4(c *sim.Ctx, out *layers.IPv4, in *inst, dgs []*datagram, completing *frag) {
	// safety, for every set: each byte was placed at that offset by some
	// received fragment, and the result is no longer than the furthest extent
	ext := 0
	for _, r := range in.recv {
		if r.off+len(r.payload) > ext {
			ext = r.off + len(r.payload)
		}
	}
	if len(out.Payload) > ext {
		c.Fail("safety", "too-long", "DefragIPv4", "returned payload has %d bytes; fragments reach only %d", len(out.Payload), ext)
	}
	for o, b := range out.Payload {
		ok := false
		for _, r := range in.recv {
			if o >= r.off && o < r.off+len(r.payload) && r.payload[o-r.off] == b {
				ok = true
				break
			}
		}
		if !ok {
			c.Fail("safety", "byte-from-nowhere", "DefragIPv4", "returned payload byte %d (%#x) was placed at that offset by no received fragment (%d fragments, mixed=%v)", o, b, len(in.recv), in.mixed)
		}
	}
	if int(out.IHL)*4+len(out.Payload) > 65535 {
		c.Fail("safety", "oversize-datagram-returned", "DefragIPv4", "returned datagram has a %d-byte header and %d bytes of payload: more than an IPv4 datagram can be (Length field says %d)", int(out.IHL)*4, len(out.Payload), out.Length)
	}
	if out.Flags&layers.IPv4MoreFragments != 0 || out.FragOffset != 0 {
		c.Fail("reassembly", "frag-fields-set", "DefragIPv4", "returned datagram has flags %v offset %d", out.Flags, out.FragOffset)
	}
	// "conflicting overlaps give an error or nothing": the result is either a
	// row of whole received fragments laid end to end, or - if some fragment was
	// used in part - no received fragment disagrees with it anywhere
	if !tiled(out.Payload, in.recv) {
		c.Probe("result_uses_partial_fragments")
		for _, r := range in.recv {
			for i, b := range r.payload {
				if r.off+i < len(out.Payload) && out.Payload[r.off+i] != b {
					c.Fail("hostile", "conflicting-overlap-reassembled", "DefragIPv4", "returned a datagram of %d bytes put together from parts of overlapping fragments although the fragment at offset %d (%d bytes) says something else at byte %d (%d fragments received)", len(out.Payload), r.off, len(r.payload), r.off+i, len(in.recv))
				}
			}
		}
	}
	if in.mixed {
		c.Probe("hostile_set_reassembled")
		return
	}
	dg := dgs[in.dg]
	if !covered(in.recv, len(dg.payload)) {
		c.Fail("reassembly", "early", "DefragIPv4", "datagram %d returned before all its fragments had arrived", in.dg)
	}
	if !bytes.Equal(out.Payload, dg.payload) {
		c.Fail("reassembly", "wrong-payload", "DefragIPv4", "datagram %d: returned payload (%d bytes) differs from the original (%d bytes)", in.dg, len(out.Payload), len(dg.payload))
	}
	if int(out.Length) != int(out.IHL)*4+len(out.Payload) {
		c.Fail("reassembly", "length-inconsistent", "DefragIPv4", "returned datagram: Length=%d but IHL*4+payload = %d+%d", out.Length, int(out.IHL)*4, len(out.Payload))
	}
	if out.Id != keyID(dg.key) || out.Protocol != layers.IPProtocolUDP || !out.SrcIP.Equal(keyAddr(dg.key, false)) || !out.DstIP.Equal(keyAddr(dg.key, true)) {
		c.Fail("reassembly", "header-changed", "DefragIPv4", "id %d protocol %v %v->%v; the fragments had id %d UDP %v->%v", out.Id, out.Protocol, out.SrcIP, out.DstIP, keyID(dg.key), keyAddr(dg.key, false), keyAddr(dg.key, true))
	}
	if dg.ihl > 5 {
		c.Probe("datagram_with_options_reassembled")
	}
	if len(in.recv) > 8000 {
		c.Probe("8000_fragments_reassembled")
	}
	c.Probe("datagram_reassembled")
}

func b2i(b bool) int64 {
	if b {
		return 1
	}
	return 0
}

// IPv6: one datagram per identification, fragments in any order, duplicates
// before completion.
func simC13v6(c *sim.Ctx) {
	d := ip6defrag.NewIPv6Defragmenter()
	nd := 1 + c.Weighted(3, 2, 1)
	type f6 struct {
		id   uint32
		off  int
		data []byte
		more bool
		at   int64
		ord  int
	}
	var all []f6
	payloads := map[uint32][]byte{}
	ord := 0
	for di := 0; di < nd; di++ {
		id := uint32(7000 + di)
		n := 16 + c.Draw(3000)
		if c.Chance(40) {
			// as large as an IPv6 datagram gets without a jumbo option: offsets and
			// lengths near the top of 16 bits
			n = 65527 - c.Draw(600)
			c.Fault("maximal_datagram")
		}
		p := fill(uint64(di)*99991+uint64(n), n)
		payloads[id] = p
		nf := 2 + c.Draw(6)
		var cuts []int
		for i := 1; i < nf; i++ {
			cuts = append(cuts, 8*(1+c.Draw(n/8)))
		}
		sort.Ints(cuts)
		prev := 0
		t := int64(di) * 50_000
		for _, cu := range append(cuts, n) {
			if cu <= prev || cu > n {
				continue
			}
			at := t
			t += 10_000
			if c.Chance(500) {
				at += int64(c.Draw(60)) * 10_000
				c.Fault("reorder")
			}
			all = append(all, f6{id, prev, p[prev:cu], cu < n, at, ord})
			ord++
			if c.Chance(150) {
				c.Fault("duplicate")
				all = append(all, f6{id, prev, p[prev:cu], cu < n, at + int64(c.Draw(30))*10_000, ord})
				ord++
			}
			prev = cu
		}
	}
	sort.SliceStable(all, func(i, j int) bool {
		if all[i].at != all[j].at {
			return all[i].at < all[j].at
		}
		return all[i].ord < all[j].ord
	})
	cov := map[uint32][]bool{}
	fin := map[uint32]bool{}
	done := map[uint32]bool{}
	for _, f := range all {
		if done[f.id] {
			continue // behaviour after completion is not specified
		}
		ip := &layers.IPv6{Version: 6, TrafficClass: 2, FlowLabel: 5, NextHeader: layers.IPProtocolIPv6Fragment, HopLimit: 9,
			SrcIP: net.ParseIP("fd00::1"), DstIP: net.ParseIP("fd00::2")}
		fg := &layers.IPv6Fragment{NextHeader: layers.IPProtocolUDP, FragmentOffset: uint16(f.off / 8), MoreFragments: f.more, Identification: f.id}
		fg.Payload = f.data
		c.Ev("frag6", int64(f.id), int64(f.off), int64(len(f.data)), b2i(f.more))
		out := d.DefragIPv6(ip, fg)
		p := payloads[f.id]
		if cov[f.id] == nil {
			cov[f.id] = make([]bool, len(p))
		}
		for i := range f.data {
			cov[f.id][f.off+i] = true
		}
		if !f.more {
			fin[f.id] = true
		}
		complete := fin[f.id]
		for _, b := range cov[f.id] {
			complete = complete && b
		}
		if out == nil {
			if complete {
				c.Fail("ipv6", "not-returned", "DefragIPv6", "all fragments of id %d arrived, nothing returned", f.id)
			}
			continue
		}
		if !complete {
			c.Fail("ipv6", "early", "DefragIPv6", "datagram id %d returned before all fragments arrived", f.id)
		}
		if !bytes.Equal(out.Payload, p) {
			c.Fail("ipv6", "wrong-payload", "DefragIPv6", "id %d: payload %d bytes differs from original %d bytes", f.id, len(out.Payload), len(p))
		}
		if out.NextHeader != layers.IPProtocolUDP {
			c.Fail("ipv6", "next-header", "DefragIPv6", "next header %v", out.NextHeader)
		}
		if out.Version != 6 || out.TrafficClass != 2 || out.FlowLabel != 5 || out.HopLimit != 9 || !out.SrcIP.Equal(ip.SrcIP) || !out.DstIP.Equal(ip.DstIP) {
			c.Fail("ipv6", "header-changed", "DefragIPv6", "id %d: rebuilt datagram carries version %d class %d label %d hop limit %d %v->%v, the fragments had 6/2/5/9 %v->%v", f.id, out.Version, out.TrafficClass, out.FlowLabel, out.HopLimit, out.SrcIP, out.DstIP, ip.SrcIP, ip.DstIP)
		}
		done[f.id] = true
		c.Probe("ipv6_reassembled")
	}
}

// simC13v6clock: the IPv6 defragmenter stamps its lists with time.Now(), so
// "partial datagrams older than a cut-off are forgotten on request" needs a
// clock the simulation owns: the run happens inside a synctest bubble, where
// time.Now() is the bubble's fake clock and time.Sleep advances it. Datagrams
// are fed fragment by fragment, the clock advances in between, and
// DiscardOlderThan is called with cut-offs in the past and ahead of the clock
// (never equal to a time of activity). The model forgets what the cut-off
// covers: a forgotten partial datagram cannot be completed by its remaining
// fragments nor leak bytes into a later datagram with the same
// identification; one that is not covered still completes.
func simC13v6clock(c *sim.Ctx) {
	type dgram struct {
		id      uint32
		payload []byte
		cuts    []int // fragment boundaries: 0 = cuts[0] < ... < cuts[n] = len
		fed     int   // fragments fed so far (in order of a drawn permutation)
		order   []int
		have    map[int]bool // fragments the defragmenter still knows (model)
		last    time.Time    // last activity on this identification
		done    bool
	}
	bubble.Run(c, func(b *bubble.B) {
		d := ip6defrag.NewIPv6Defragmenter()
		var live []*dgram
		idBusy := map[uint32]*dgram{} // identification -> datagram whose list the defragmenter may still hold
		nextID := uint32(7000)
		mk := func() *dgram {
			// an identification is reused only when the model says its list is gone
			id := uint32(0)
			for cand := uint32(7000); cand < nextID; cand++ {
				if idBusy[cand] == nil && c.Chance(600) {
					id = cand
					c.Fault("identification_reused")
					break
				}
			}
			if id == 0 {
				id = nextID
				nextID++
			}
			n := 24 + 8*c.Draw(20)
			g := &dgram{id: id, payload: fill(uint64(id)*131+uint64(c.Tape.Used()), n), have: map[int]bool{}}
			g.cuts = []int{0}
			for o := 8 * (1 + c.Draw(3)); o < n; o += 8 * (1 + c.Draw(4)) {
				g.cuts = append(g.cuts, o)
			}
			g.cuts = append(g.cuts, n)
			nf := len(g.cuts) - 1
			for i := 0; i < nf; i++ {
				g.order = append(g.order, i)
			}
			for i := nf - 1; i > 0; i-- {
				j := c.Draw(i + 1)
				g.order[i], g.order[j] = g.order[j], g.order[i]
			}
			idBusy[id] = g
			return g
		}
		live = append(live, mk())
		for step := 0; step < 40; step++ {
			var open []*dgram
			for _, g := range live {
				if !g.done && g.fed < len(g.order) {
					open = append(open, g)
				}
			}
			switch c.Weighted(6, 3, 2, 2) {
			case 0: // next fragment of some datagram
				if len(open) == 0 {
					if len(live) >= 4 {
						return
					}
					live = append(live, mk())
					continue
				}
				g := open[c.Draw(len(open))]
				k := g.order[g.fed]
				g.fed++
				lo, hi := g.cuts[k], g.cuts[k+1]
				ip := &layers.IPv6{Version: 6, TrafficClass: 2, FlowLabel: 5, NextHeader: layers.IPProtocolIPv6Fragment, HopLimit: 9,
					SrcIP: net.ParseIP("fd00::1"), DstIP: net.ParseIP("fd00::2")}
				fg := &layers.IPv6Fragment{NextHeader: layers.IPProtocolUDP, FragmentOffset: uint16(lo / 8), MoreFragments: hi < len(g.payload), Identification: g.id}
				fg.Payload = g.payload[lo:hi]
				c.Ev("frag6", int64(g.id), int64(lo), int64(hi-lo))
				out := d.DefragIPv6(ip, fg)
				g.have[k] = true
				g.last = time.Now()
				idBusy[g.id] = g
				complete := len(g.have) == len(g.cuts)-1
				if out != nil {
					if !complete {
						c.Fail("ipv6", "early", "DefragIPv6", "id %d: datagram returned although the defragmenter can only know %d of its %d fragments (the others were fed before a DiscardOlderThan that covered them, or not yet)", g.id, len(g.have), len(g.cuts)-1)
					}
					if !bytes.Equal(out.Payload, g.payload) {
						c.Fail("ipv6", "wrong-payload", "DefragIPv6", "id %d: rebuilt payload (%d bytes) differs from the original (%d bytes)", g.id, len(out.Payload), len(g.payload))
					}
					g.done = true
					c.Probe("ipv6_reassembled_on_simulated_clock")
				} else if complete {
					c.Fail("ipv6", "not-returned", "DefragIPv6", "id %d: all %d fragments fed since the last discard that covered it, nothing returned", g.id, len(g.cuts)-1)
				}
			case 1: // time passes
				dt := time.Duration(1+c.Draw(30)) * 10 * time.Millisecond
				time.Sleep(dt)
				c.Advance(dt)
			case 2, 3: // forget what is older than a cut-off
				var cut time.Time
				if c.Chance(300) {
					cut = time.Now().Add(time.Hour + 5*time.Millisecond) // "everything": a cut-off ahead of the clock
					c.Fault("discard_cutoff_ahead_of_clock")
				} else {
					cut = time.Now().Add(-time.Duration(c.Draw(40))*10*time.Millisecond - 5*time.Millisecond)
					c.Fault("discard_timer")
				}
				d.DiscardOlderThan(cut)
				c.Ev("discard6", int64(time.Until(cut)/time.Millisecond))
				for id, g := range idBusy {
					if g != nil && g.last.Before(cut) {
						// forgotten: whatever was fed so far is gone
						g.have = map[int]bool{}
						idBusy[id] = nil
						if !g.done && g.fed > 0 {
							c.Probe("partial_ipv6_datagram_forgotten")
						}
					}
				}
			}
		}
	})
}

var sims = map[string]sim.SimFunc{"c13v4": simC13v4, "c13v6": simC13v6, "c13v6clock": simC13v6clock, "c13v4clock": simC13v4clock}

func TestChild(t *testing.T) {
	bubble.T = t
	if !sim.ChildMain(sims) {
		t.Skip("not a child")
	}
}

func TestMain(m *testing.M) { os.Exit(m.Run()) }

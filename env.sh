# sourced by every command: offline Go environment
export GOFLAGS=-mod=mod GOPROXY=off GOSUMDB=off GOTOOLCHAIN=local
export PATH=/opt/veriftools/go1.26.8/bin:$PATH
export GOCACHE=${GOCACHE:-/root/.cache/go-build}

#!/bin/sh
# benignrun.sh [budget_s] [ids...] : applies every property-preserving change
# kept under benign/<id>/patch.diff to a fresh worktree of /repo HEAD and runs
# the property's quick check against it: any VIOLATION is a false alarm.
# (ids are <property> for round 1 and <property>-<round> afterwards)
budget=${1:-40}; shift
here=$(cd "$(dirname "$0")/.." && pwd)
. "$here/env.sh"
export VERIF_ROOT="$here"
cd "$here" && go build -o bin/verif ./cmd/verif || exit 2
ids=${*:-$(ls "$here/benign")}
for id in $ids; do
  ev=/tmp/evalbenign-$id
  git -C /repo worktree remove --force "$ev" 2>/dev/null
  # (a set that no longer merges with HEAD because a later repair of 9.2
  # rewrote the same lines names the commit it still applies to in a file "base")
  base=HEAD; [ -f "$here/benign/$id/base" ] && base=$(cat "$here/benign/$id/base")
  git -C /repo worktree add -q --detach "$ev" "$base" || exit 2
  if (cd "$ev" && (git apply "$here/benign/$id/patch.diff" 2>/dev/null || git apply -3 "$here/benign/$id/patch.diff" >/dev/null 2>&1)); then
    prop=${id%%-*}
    out=$(VERIF_REPO="$ev" VERIF_BUDGET_S=$budget ./bin/verif check $prop 2>&1)
    n=$(echo "$out" | grep -c "^VIOLATION")
    if [ "$n" -gt 0 ]; then echo "FALSE-ALARM $id: $(echo "$out" | grep 'signature:' | head -3 | tr '\n' ';' | cut -c1-200)"; elif echo "$out" | grep -q "quick:"; then echo "QUIET   $id"; else echo "TROUBLE $id: $(echo "$out" | grep '^verif' | head -2 | cut -c1-200)"; fi
  else
    echo "NOAPPLY $id"
  fi
  git -C /repo worktree remove --force "$ev"
  h=$(python3 -c "import hashlib,sys;print(hashlib.sha256(sys.argv[1].encode()).hexdigest()[:12])" "$ev")
  rm -rf "/dev/shm/verif-bin-$h" "/dev/shm/verif-instr-$h" "/dev/shm/verif-instr-$h.lock"
done

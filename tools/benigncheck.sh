#!/bin/sh
# benigncheck.sh <worktree-with-a-property-preserving-change> <property> [budget_s]
# runs the property's quick check against the changed tree: any VIOLATION is a
# false alarm of the machinery (or the change is not as benign as claimed)
d=$1; prop=$2; budget=${3:-45}
. /verif/env.sh
cd /verif && go build -o bin/verif ./cmd/verif || exit 2
VERIF_REPO="$d" VERIF_BUDGET_S=$budget ./bin/verif check $prop 2>&1 | cut -c1-300 | grep -E "^VIOLATION|signature|detail|quick:|^verif|KNOWN" | head -40
h=$(python3 -c "import hashlib,sys;print(hashlib.sha256(sys.argv[1].encode()).hexdigest()[:12])" "$d")
rm -rf "/dev/shm/verif-bin-$h" "/dev/shm/verif-instr-$h" "/dev/shm/verif-instr-$h.lock"

#!/bin/sh
# seedkeep.sh <agent-worktree> <seed-id> <property> <change> <needs> <result>
# stores a confirmed seeded change under /verif/seeded/<seed-id>/
d=$1; id=$2; prop=$3; change=$4; needs=$5; result=$6
o=/verif/seeded/$id
mkdir -p "$o"
cp "$d/SEED_PATCH.diff" "$o/patch.diff"
demo=$(cd "$d" && find . -name 'seed_demo*_test.go' | head -1 | sed 's|^\./||')
cp "$d/$demo" "$o/demo_test.go.txt"
[ -f "$d/NOTES.md" ] && cp "$d/NOTES.md" "$o/notes.md"
python3 - "$o" "$prop" "$change" "$needs" "$demo" "$result" "$d" <<'P'
import json,sys
o,prop,change,needs,demo,result,d=sys.argv[1:]
json.dump({"property":prop,"change":change,"needs_to_manifest":needs,"demo_location":demo,
 "confirmed":"tools/seedcheck.sh: fresh worktree of /repo HEAD + patch.diff; existing tests of the touched packages pass; demo fails with the change and passes without it",
 "ran":"./tools/seedcheck.sh %s %s  (VERIF_REPO=<fresh worktree with the patch> ./bin/verif check %s)"%(d,prop,prop),
 "result":result,"source":"independent sub-agent given only the property record and a scratch worktree"},open(o+"/meta.json","w"),indent=1)
P
echo kept $o

#!/bin/sh
# seedrun.sh [budget_s] [ids...] : runs every seeded change under /verif/seeded
# against a fresh worktree of /repo HEAD and reports whether the property's
# check catches it. Worktrees and their build output are removed again.
budget=${1:-30}; shift
here=$(cd "$(dirname "$0")/.." && pwd)
. "$here/env.sh"
export VERIF_ROOT="$here"
cd "$here" && go build -o bin/verif ./cmd/verif || exit 2
ids=${*:-$(ls "$here/seeded")}
for id in $ids; do
  d=$here/seeded/$id
  prop=$(python3 -c "import json;m=json.load(open('$d/meta.json'));print(m.get('check_with',m['property']))")
  if python3 -c "import json,sys;sys.exit(0 if json.load(open('$d/meta.json')).get('void_on_current_tree') else 1)"; then echo "VOID    $id ($prop): the seeded line is part of a later repair, see meta.json"; continue; fi
  ev=/tmp/evalseed-$id
  git -C /repo worktree remove --force "$ev" 2>/dev/null
  git -C /repo worktree add -q --detach "$ev" HEAD || exit 2
  if (cd "$ev" && (git apply "$d/patch.diff" 2>/dev/null || git apply -3 "$d/patch.diff" >/dev/null 2>&1)); then
    out=$(VERIF_REPO="$ev" VERIF_BUDGET_S=$budget ./bin/verif check $prop 2>&1)
    n=$(echo "$out" | grep -c "^VIOLATION")
    sig=$(echo "$out" | grep "signature:" | head -2 | sed 's/^ *signature: //' | tr '\n' ';' | cut -c1-160)
    if [ "$n" -gt 0 ]; then echo "CAUGHT  $id ($prop): $sig"; else echo "MISSED  $id ($prop)"; fi
  else
    echo "NOAPPLY $id ($prop): patch.diff does not apply to HEAD"
  fi
  git -C /repo worktree remove --force "$ev"
  rm -rf "/dev/shm/verif-bin-$(python3 -c "import hashlib,sys;print(hashlib.sha256(sys.argv[1].encode()).hexdigest()[:12])" "$ev")" "/dev/shm/verif-instr-$(python3 -c "import hashlib,sys;print(hashlib.sha256(sys.argv[1].encode()).hexdigest()[:12])" "$ev")" "/dev/shm/verif-instr-$(python3 -c "import hashlib,sys;print(hashlib.sha256(sys.argv[1].encode()).hexdigest()[:12])" "$ev").lock"
done

#!/bin/sh
# runs the repository's tests for the given packages (default: the packages
# this work touches) with the verif tag off and prints any failure that is not
# one of the two baseline always-fail tests
cd /repo || exit 2
. /verif/env.sh
pk="$*"
[ -z "$pk" ] && pk="./ ./layers ./pcapgo ./reassembly ./tcpassembly/... ./ip4defrag ./ip6defrag ./pcap"
out=$(go test -count=1 -vet=off $pk 2>&1)
echo "$out" | grep -- "--- FAIL" | grep -v "TestEthernetHandle_Close_With" && { echo "NON-BASELINE FAILURES"; exit 1; }
echo "$out" | grep -E "^(ok|FAIL|panic)" | grep -v "^ok" | grep -v "gopacket/pcapgo\s" | grep -v "^FAIL$" && { echo "PACKAGE FAILURE"; exit 1; }
echo "repo tests: only baseline failures"

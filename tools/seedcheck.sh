#!/bin/sh
# seedcheck.sh <worktree> <property> [budget_s]
# Confirms a seeded change (existing tests pass, demo fails with / passes
# without) and runs the property's check against the worktree.
d=$1; prop=$2; budget=${3:-30}
. /verif/env.sh
cd "$d" || exit 2
[ -f SEED_PATCH.diff ] || { echo "no SEED_PATCH.diff"; exit 2; }
pkgs=$(git diff --name-only | grep '\.go$' | grep -v _test.go | xargs -n1 dirname | sort -u | sed 's|^|./|')
demo=$(git status --porcelain | grep seed_demo_test.go | awk '{print $2}' | head -1)
demopkg=./$(dirname "$demo")
echo "== touched: $pkgs ; demo: $demo"
echo "== existing tests with the change"
go test -count=1 -vet=off $pkgs 2>&1 | grep -v "TestEthernetHandle_Close" | grep -E "^(ok|FAIL|---|panic)" | head
echo "== demo with the change (expect FAIL)"
timeout 120 go test -count=1 -vet=off -run 'Seed|seed|Demo' $demopkg 2>&1 | tail -3
echo "== demo without the change (expect ok)"
git stash -q -- $(git diff --name-only) && timeout 120 go test -count=1 -vet=off -run 'Seed|seed|Demo' $demopkg 2>&1 | tail -2; git stash pop -q
echo "== verif check $prop against the worktree"
cd /verif && VERIF_REPO="$d" VERIF_BUDGET_S=$budget ./bin/verif check $prop 2>&1 | cut -c1-260 | grep -v "^      /" | head -14

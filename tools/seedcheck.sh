#!/bin/sh
# seedcheck.sh <seed-dir> <property> [budget_s]
# Confirms a seeded change in a FRESH worktree built from SEED_PATCH.diff and the
# demo test (existing tests pass, demo fails with / passes without the change)
# and runs the property's check against it. The fresh worktree is removed again.
d=$1; prop=$2; budget=${3:-30}
here=$(cd "$(dirname "$0")/.." && pwd)   # /verif, or a snapshot of it (vp run)
. "$here/env.sh"
export VERIF_ROOT="$here"
(cd "$here" && go build -o bin/verif ./cmd/verif) || exit 2
[ -f "$d/SEED_PATCH.diff" ] || { echo "no SEED_PATCH.diff in $d"; exit 2; }
ev=/tmp/eval-$(basename "$d")
git -C /repo worktree remove --force "$ev" 2>/dev/null
git -C /repo worktree add -q --detach "$ev" HEAD || exit 2
cd "$ev" || exit 2
applyp() { git apply "$d/SEED_PATCH.diff" 2>/dev/null || git apply -3 "$d/SEED_PATCH.diff" >/dev/null 2>&1; }
applyp || { echo "patch does not apply to HEAD (even 3-way)"; cd /; git -C /repo worktree remove --force "$ev"; exit 2; }
git reset -q
demo=$(cd "$d" && find . -name 'seed_demo*_test.go' | head -1)
[ -n "$demo" ] || { echo "no demo test"; }
pkgs=$(git diff --name-only | grep '\.go$' | grep -v _test.go | xargs -n1 dirname | sort -u | sed 's|^|./|')
echo "== touched: $pkgs ; demo: $demo"
echo "== existing tests with the change"
go test -count=1 -vet=off $pkgs 2>&1 | grep -v "TestEthernetHandle_Close" | grep -E "^(ok|FAIL|---|panic)" | head
if [ -n "$demo" ]; then
  cp "$d/$demo" "$ev/$demo"
  demopkg=$(dirname "$demo")
  echo "== demo with the change (expect FAIL)"
  timeout 300 go test -count=1 -vet=off -run 'Seed|seed|Demo' $demopkg 2>&1 | tail -3
  echo "== demo without the change (expect ok)"
  changed=$(git diff --name-only)
  git diff > /tmp/.seedcur-$(basename "$d").diff
  git checkout -- $changed && timeout 300 go test -count=1 -vet=off -run 'Seed|seed|Demo' $demopkg 2>&1 | tail -2
  git apply /tmp/.seedcur-$(basename "$d").diff
  rm -f "$ev/$demo"
fi
echo "== verif check $prop against the changed tree"
cd "$here" && VERIF_REPO="$ev" VERIF_BUDGET_S=$budget ./bin/verif check $prop 2>&1 | cut -c1-260 | grep -v "^      /" | head -80
cd /; git -C /repo worktree remove --force "$ev"; rm -rf "/dev/shm/verif-bin-$(python3 -c "import hashlib,sys;print(hashlib.sha256(sys.argv[1].encode()).hexdigest()[:12])" "$ev")" "/dev/shm/verif-instr-$(python3 -c "import hashlib,sys;print(hashlib.sha256(sys.argv[1].encode()).hexdigest()[:12])" "$ev")" "/dev/shm/verif-instr-$(python3 -c "import hashlib,sys;print(hashlib.sha256(sys.argv[1].encode()).hexdigest()[:12])" "$ev").lock"

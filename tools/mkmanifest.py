#!/usr/bin/env python3
"""Regenerates /verif/MANIFEST.json from the table below (kept valid at all times)."""
import json, subprocess, sys

NA = {
 "C01": "pure function of (bytes, first layer type, options) evaluated on one goroutine: no schedule, clock, I/O or fault for a simulator to own; deciding it needs input generation / fuzzing, another technique (DESIGN.md section 5)",
 "C03": "lazy packets are single-owner by contract; accessor sequences are deterministic programs with no nondeterminism or fault: sequential model-based testing, not simulation (DESIGN.md section 5)",
 "C05": "deterministic function of the sequence of inputs decoded into the same layer objects; no concurrency, time or I/O (DESIGN.md section 5)",
 "C06": "pure function of layer values and payload (DESIGN.md section 5)",
 "C07": "deterministic single-owner buffer; a dirty buffer is an input, not a fault met at run time (DESIGN.md section 5)",
 "C08": "arithmetic identities over all inputs; a flipped bit is an input and verification is a pure function of the bytes (DESIGN.md section 5)",
 "C17": "algebraic laws on immutable values (DESIGN.md section 5)",
 "C18": "deterministic single-owner data structure; operation sequences against a model have an empty fault and schedule space (DESIGN.md section 5)",
 "C19": "pure function of bytes (DESIGN.md section 5)",
}
PENDING = "simulation designed (DESIGN.md section 4) but not built yet at this commit"

CHECKS = {
 "C09": dict(cat="exploration", engine="des-tcp", ref="4 C09",
   text="seeded deterministic simulation of TCP senders and a lossy/reordering/duplicating/re-segmenting network with flush timers and page limits in front of the real reassembly.Assembler; a reference delivery model (in order, exactly once, exact skips, kept bytes re-presented, age-based release judged by the harness's own arrival times) is checked after every event; a second unit feeds the packets through Assemble(), which reads the clock itself, inside a synctest bubble whose fake clock the harness advances. Sampling, not proof: the input space (streams, ISNs, segmentations, arrival orders) is unbounded.",
   note="trusted: the harness's sender/network model and delivery model (sim/tcpsim); senders retransmit consistent bytes; timestamps come from the simulated clock; hooks only order the flush visiting order",
   tech="deterministic discrete-event simulation with network fault injection; reference-model oracle; tape shrinking"),
 "C10": dict(cat="exploration", engine="des-tcp", ref="4 C10",
   text="same simulation and delivery model as C09 against the real tcpassembly.Assembler (Reassembly.Skip/Bytes/Start/End), including sequence wrap, page limits and age-based flushes; a second unit feeds through Assemble() on the simulated clock of a synctest bubble.",
   note="as C09",
   tech="deterministic discrete-event simulation with network fault injection; reference-model oracle; tape shrinking"),
 "C11": dict(cat="exploration", engine="des-tcp", ref="4 C11",
   text="seeded deterministic simulation of many connections (FIN, RST, stalled, re-opened 4-tuples) with network faults, backward clock jumps, closing and non-closing age-based flushes, page limits and a final flush-all against both real assemblers; after every event the lifecycle (completion exactly once, no data after it), leak (pool and page cache empty after flush-all), page-limit (out-of-order pages counted by walking the queues, also in runs whose streams keep bytes) and age-flush invariants (flushes with equal, different and absent data/closing cut-offs) are audited; a closing flush must not complete a stream whose connection received a packet at or after the closing cut-off; both page limits may be set at once; a few runs per thousand hold over 1024 connections and buffered pages at once so that pool and page cache grow beyond their first allocation, and 2.5 % put small buffered runs in front of multi-page segments under a limit (the shape that exposed the page-limit drift repaired in repo 6e06aa5).",
   note="trusted: harness model; pages in use and pool size are read through verif-tagged accessors; pages in use, queued and kept pages are read through verif-tagged accessors that walk the lists",
   tech="deterministic discrete-event simulation with fault injection; invariant audit after every event"),
 "C13": dict(cat="exploration", engine="des-defrag", ref="4 C13",
   text="seeded deterministic simulation of fragmenting senders (headers 20-60 bytes, payloads up to the maximum 65535 minus header, cuts at multiples of 8), a reordering/duplicating/dropping network with key reuse, a hostile injector (conflicting overlaps, holes, undersized, beyond 65535, complete sets that are oversize only with their header, up to the maximum of 8190 fragments and beyond) and discard timers on a simulated clock in front of the real IPv4 defragmenter (through DefragIPv4WithTimestamp, and through DefragIPv4 on the fake clock of a synctest bubble; and fragments in any order with duplicates in front of the IPv6 one, whose age-based discard is simulated inside a synctest bubble because it reads time.Now()); a per-key model of the received set decides at every call whether nothing, an error or exactly the original datagram must come back, every returned byte must have been placed at its offset by a received fragment, and a returned datagram is either a row of whole received fragments or contradicted by no received fragment (conflicting overlaps give an error or nothing).",
   note="trusted: harness fragmenter and per-key model; fragments are built field by field with consistent Length; IPv6 behaviour after completion and the count returned by the IPv6 discard are not checked",
   tech="deterministic discrete-event simulation with network and hostile-input fault injection; reference-model oracle"),
 "C14": dict(cat="fault_enumeration", engine="sim-disk", ref="4 C14",
   text="seeded captures are written by the real pcap (us/ns) and pcapng writers into a simulated file; every written pcapng file is walked at byte level (block framing), the round trip is checked through a chunked simulated stream with the copying calls, the zero-copy calls and a drawn mix of both on one reader - whatever the copying call returned is examined again after all later reads - (and by libpcap for a seeded subset), and then the crash space is enumerated: the file is cut at every byte offset (exhaustive for files up to 2 KiB; all write boundaries +-2 plus a seeded sample beyond) and the reader must return exactly the wholly contained packets and then an EOF-class error. Exhaustive over cut positions per file; the files are seeded samples.",
   note="trusted: harness packet generator and comparison; block boundaries are taken from the simulated file's length after each flushed packet; libpcap is a second reader for single-link-type files only",
   tech="deterministic simulation of file and stream with crash-point enumeration (cut at every byte) and short-read injection"),
 "C15": dict(cat="exploration", engine="sim-disk", ref="4 C15",
   text="seeded structurally valid pcap / pcapng / snoop inputs (harness-built, both byte orders, every field a named mutation target) with boundary-value field corruptions, consistent inflation of all the length fields of one record or block (a huge claim that passes the consistency checks, the block length sometimes a few words off), sections with fewer interfaces than their predecessor, random tails, truncations and gzip wrapping are read through fault-free, chunked and failing simulated streams with the copying and zero-copy calls (pcapng also with every reader option, a SkipSection call between reads and the accessors Interface/Name/SectionInfo/Resolution after every read); oracles: no panic, no spin at EOF, allocation per call in proportion to bytes present plus declared snap length, data length == capture length <= length, results independent of chunking, prefix property and surfacing of an injected read error. The thorough tier sweeps every error offset for inputs up to 512 bytes.",
   note="trusted: harness file builders and oracles; allocation measured with runtime/metrics and confirmed with runtime.ReadMemStats before it is reported; children run under a 3 GiB address-space limit; a child that dies of out-of-memory or a run that does not finish is re-executed alone and, if it fails again, reported as allocation/out-of-memory resp. no-hang/run-does-not-finish with a by-seed replay",
   tech="deterministic simulation of the byte stream with short-read, data+EOF and read-error injection over seeded structure-aware corruptions"),
 "C16": dict(cat="exploration", engine="bubble", ref="4 C16",
   text="the real PacketSource, including its background goroutine, channel, retry sleeps and context handling, runs inside a testing/synctest bubble (fake clock, durable-blocking detection); a tape-driven controller releases one actor at a time (data source result, consumer step, cancellation, clock advance) and checks once-in-order-intact delivery with capture metadata and truncation flag (packets of 0 to 9000 captured bytes; with the Pool option the program goes on decoding pooled packets while it holds what it was given), retry within 5 ms of simulated time after transient errors, channel closed and source never read again after end of input, no new read and a closed channel after cancellation, refusal of zero-copy + NoCopy on the channel interface, and no goroutine left at the end of the bubble - also when the consumer walks away after the cancellation (reader parked on the full 1000-slot channel, in its retry sleep or in a read); data sources include concatenations of finite sources (ConcatFinitePacketDataSources: each sub-source read in order and never again after its io.EOF) and a second Packets/PacketsCtx call must return the same channel without a second reader - or be refused if NoCopy was switched on for a zero-copy source in between.",
   note="trusted: harness actors and oracle; Go's select among ready cases is not owned (the packet in flight at cancellation is optional in the oracle); the data source is a stub, decoding uses gopacket.DecodePayload",
   tech="deterministic simulation in a synctest bubble with gated actors, scripted source faults (timeouts, transient and terminal errors), cancellation points and simulated clock"),
 "C20": dict(cat="exploration", engine="bubble", ref="4 C20 and 9.1",
   text="(unit reader-asm puts the real tcpassembly.Assembler on the assembler side and additionally demands that the stream is completed in the call that handed over the batch whose last element carries End; the consumer may finish with tcpreader.DiscardBytesToEOF; unit reader-sweep additionally enumerates the crash points: for one seeded small script, read-size sequence over {1,2,64} and schedule, Close is placed at EVERY consumer step, each placement in a fresh bubble; ) the real ReaderStream runs between an assembler-side actor (seeded delivery script with empty slices, skips and completion; batch memory scribbled over after each call returns) and a consumer actor (seeded read sizes, Close at a seeded point, double Close) inside a synctest bubble; the controller decides who moves; oracles: bytes read are exactly the bytes delivered, one DataLost per gap when asked, EOF for ever after completion or Close, both sides run to completion (no deadlock, no panic).",
   note="trusted: harness actors and the element-by-element read model; single consumer goroutine",
   tech="deterministic simulation in a synctest bubble with gated actors; close-point and read-size fault injection; deadlock detection by durable blocking"),
 "C02": dict(cat="exploration", engine="coop", ref="4 C02",
   text="2-4 real goroutines run under the cooperative scheduler, one at a time, over a seeded corpus (harness-built Ethernet/Dot1Q/IPv4/IPv6/TCP/UDP/ICMP/GRE/ARP/DNS query and answer stacks, the 173 packets of gopacket's own layer tests (byte arrays, string literals, hex strings) with the decoder the test uses, DHCPv4 messages with every legal option layout, near-duplicates, truncations, bit flips): decoders compare every NewPacket result with a quiet-state reference decode of the same bytes and options (history and schedule independence), readers call the read-only accessors, String/Dump and VerifyChecksums on eager packets published by other goroutines and must get the answers recorded from a twin decode of the same bytes (the shared packet itself is handed over untouched, optionally after SetNetworkLayerForChecksum so that TCP/UDP checksums are really verified), and the input buffers must be unchanged; the same simulation is run in a -race build whose scheduler hand-off is invisible to the race detector, so any write to shared packet memory is reported although the goroutines never ran simultaneously; a third unit runs every simulated run in a process of its own with nothing decoded or rendered beforehand, built against the lock-instrumented copy of the repository, so that process-lifetime state (tables, caches) is first used by concurrent workers interleaved at its own lock sites, and compares their answers with each other and with a reference taken after the run.",
   note="trusted: harness packet generator, signature renderer and hand-off (one atomic pointer per published packet); schedules are explored at API calls, at every lock acquisition and release and at every sync/atomic operation of the instrumented copy (including between an atomic read and the atomic operation that consumes it); plain unsynchronised accesses are left to the race detector build; the race detector keeps a bounded history per word",
   tech="deterministic cooperative scheduling of real goroutines with a race-detector-invisible hand-off; reference-decode oracle"),
 "C04": dict(cat="exploration", engine="coop", ref="4 C04",
   text="2-4 real goroutines under the cooperative scheduler execute seeded sequences of decode (default, NoCopy, Pool, Pool+Lazy, Lazy), Dispose, producer-overwrites-its-buffer and hand-over to another goroutine, over inputs including lengths 0, 1, 1499, 1500, 1501, 3000; after every step every live copied packet must still render as when it was created, NoCopy/Pool decodes must equal the default decode, and no two undisposed pooled packets may share a pool block; one run in twenty holds a row of 20-220 pooled packets at once, gives all back and decodes as many again; garbage collections are a per-run fault; a -race build runs the same simulation.",
   note="trusted: as C02; which pool block a decode gets is decided by sync.Pool (per-P caches, random drops under -race) and is not owned, verdicts do not depend on it",
   tech="deterministic cooperative scheduling of real goroutines with a race-detector-invisible hand-off; ownership/aliasing oracle after every step"),
 "C12": dict(cat="exploration", engine="coop", ref="4 C12",
   text="2-3 assembler goroutines plus an optional flusher share one real StreamPool (both packages) under the cooperative scheduler: exactly one goroutine runs, each parks at every API call boundary, every stream callback, in front of every lock acquisition and behind every lock release of the package (hand-placed verif-tagged hooks plus an instrumented scratch copy of the repository in which cmd/instrument puts a verifhook call in front of every x.Lock()/x.RLock(), behind every x.Unlock()/x.RUnlock() statement and in front of every sync/atomic operation, so that locks a change adds or moves are covered too; the released worker tries the lock first so blocked workers are known and deadlock is a verdict; a read-lock attempt counts as blocked while another worker's write attempt on the same RWMutex is waiting, as in sync.RWMutex), and the next runner is drawn from the tape (random pre-emption, PCT-style priorities or injected long stalls, chosen per run). The merged history is checked for panics, deadlock, a single live stream per connection, non-overlapping callbacks, the in-order delivery model for directions fed by one assembler (including completeness after the final flush-all when nothing is lost and no flush closes), cross-stream deliveries and exactly-once completion; connections closed by their FINs are re-opened on the same 4-tuple, behind a barrier in ordered runs and unordered in split runs or under a closing flusher; per worker the connections' packets are interleaved in a drawn order in half of the runs; assemblers may join a pool already in use; a worker may call StreamPool.Dump concurrently; -race builds of both packages run the same simulation with the hand-off hidden from the race detector.",
   note="trusted: scheduler, hooks (add-only lines in front of lock acquisitions), offline history checker; code between two yield points runs atomically; the race detector keeps a bounded history per word",
   tech="deterministic cooperative scheduling of real goroutines with lock-aware yield hooks and a race-detector-invisible hand-off; offline history oracle"),
}

def main():
    props = [json.loads(l)["id"] for l in open("/verif/properties.jsonl")]
    checks = []
    for pid in props:
        if pid not in CHECKS: continue
        c = CHECKS[pid]
        checks.append({
          "property_id": pid,
          "quick_cmd": f"./verif.sh check {pid} --tier quick",
          "thorough_cmd": f"./verif.sh check {pid} --tier thorough",
          "evidence_file": f"/verif/evidence/{pid}.json",
          "replay_cmd_template": "./verif.sh replay {path}",
          "engine": c["engine"],
          "level_claimed": {"category": c["cat"], "text": c["text"], "design_ref": "DESIGN.md section " + c["ref"]},
          "level_note": c["note"],
          "technique": c["tech"],
        })
    na = []
    for pid in props:
        if pid in CHECKS: continue
        na.append({"property_id": pid, "reason": NA.get(pid, PENDING)})
    hooks_commits = subprocess.run(["git","-C","/repo","log","--format=%h","--grep=^verif hooks"],capture_output=True,text=True).stdout.split()
    m = {
      "version": 1,
      "setup_cmd": "./verif.sh build",
      "hooks": {
        "guard": "verif (Go build tag)",
        "enable": "go test -c -tags verif (every simulation binary is built from /repo's working tree with the tag on)",
        "baseline_off_cmd": "cd /repo && GOFLAGS=-mod=mod go test -json -vet=off -count=1 -timeout 25m ./...",
        "source_commits": hooks_commits,
        "add_only": True,
      },
      "engines": [
        {"name": "des-defrag", "path": "props/defrag", "serves_properties": ["C13"], "kind_free_text": "single-threaded discrete-event simulation: fragmenting senders, lossy network, hostile injector, simulated clock; per-key reference model"},
        {"name": "sim-disk", "path": "sim/disk", "serves_properties": ["C14","C15"], "kind_free_text": "simulated file (write log, crash = cut at a byte) and simulated stream (seeded chunking, data+EOF, injected read error at an offset, post-EOF spin detection)"},
        {"name": "bubble", "path": "sim/bubble", "serves_properties": ["C16","C20"], "kind_free_text": "testing/synctest bubble with gated actors: tape-driven controller releases one actor at a time and waits for durable blocking of every goroutine; fake clock"},
        {"name": "coop", "path": "sim/coop", "serves_properties": ["C02","C04","C12"], "kind_free_text": "cooperative scheduler for real goroutines: one runs at a time, tape picks the next at yield points (API calls, callbacks, lock hooks with TryLock awareness); channel hand-off in normal builds, raw pipe read/write from norace functions in -race builds so the detector still sees races"},
        {"name": "des-tcp", "path": "sim/tcpsim", "serves_properties": ["C09","C10","C11"], "kind_free_text": "single-threaded discrete-event simulation: TCP senders, lossy network, simulated clock, flush timers; reference delivery/lifecycle model"},
      ],
      "checks": checks,
      "not_applicable": na,
      "notes": "Technique: deterministic simulation with fault injection. One seed (VERIF_SEED) decides every choice through a recorded choice tape; failures are minimised on the tape and written as replay files (./verif.sh replay <file>). Exit 0 ok, 1 violation, 2 build/harness trouble. known_findings.json lists open and fixed defects.",
    }
    json.dump(m, open("/verif/MANIFEST.json","w"), indent=1)
    print("MANIFEST.json written:", len(checks), "checks,", len(na), "not applicable")
main()

// Command verif is the driver of the deterministic simulations:
//
//	verif check <property> [--tier quick|thorough]
//	verif replay <file>
//	verif selftest [<property>...]
//
// It rebuilds the simulation binaries from /repo's working tree (or
// $VERIF_REPO) with -tags verif, runs seeded children, classifies what they
// find against known_findings.json, writes evidence/<id>.json and replay
// files, and exits 0 / 1 (violation) / 2 (build or harness trouble).
package main

import (
	"bytes"
	"crypto/sha256"
	"encoding/binary"
	"encoding/json"
	"fmt"
	"os"
	"os/exec"
	"path/filepath"
	"sort"
	"strconv"
	"strings"
	"sync"
	"sync/atomic"
	"syscall"
	"time"

	"verif/sim"
)

// Unit is one simulation binary + registered sim that serves a property.
type Unit struct {
	Name  string  // unit name, also binary name
	Pkg   string  // package dir under /verif
	Sim   string  // sim registered in that binary
	Race  bool    // build with -race
	Share float64 // share of the property's time budget
	Procs int     // GOMAXPROCS in the child (default 1)
	MemMB int     // hard address-space limit of the child in MiB (0 = none)
	// Instr: build against an instrumented scratch copy of the repository in
	// which every mutex acquisition is preceded by a verifhook.BeforeLock call
	// (cmd/instrument), so that the cooperative scheduler has a scheduling
	// point at every lock site - also at sites a change has added or moved
	Instr bool
	// Cold: every run gets a process of its own (the child executes exactly
	// one run and exits), for state that gopacket computes on first use and
	// keeps for the life of the process
	Cold bool
}

type PropDef struct {
	Level     string // evidence level
	Units     []Unit
	Rule      string
	RealStub  string
	Assume    []string
	QuickS    int // exploring budget, seconds
	ThoroughS int
}

var root = "/verif"

func fatal2(format string, a ...any) {
	fmt.Fprintf(os.Stderr, "verif: "+format+"\n", a...)
	os.Exit(2)
}

func goEnv() []string {
	env := os.Environ()
	env = append(env, "GOFLAGS=-mod=mod", "GOPROXY=off", "GOSUMDB=off", "GOTOOLCHAIN=local",
		"PATH=/opt/veriftools/go1.26.8/bin:"+os.Getenv("PATH"))
	return env
}

// repoPath is the repository the simulations are built against.
func repoPath() string {
	if r := os.Getenv("VERIF_REPO"); r != "" {
		return r
	}
	return "/repo"
}

// modfileArgs returns extra build args redirecting the gopacket replace to
// repo (a scratch copy for seeded changes, or an instrumented copy); nil for
// /repo itself.
func modfileArgs(scratch, repo, name string) []string {
	if repo == "/repo" {
		return nil
	}
	gm, err := os.ReadFile(filepath.Join(root, "go.mod"))
	if err != nil {
		fatal2("%v", err)
	}
	gm = bytes.Replace(gm, []byte("=> /repo"), []byte("=> "+repo), 1)
	mf := filepath.Join(scratch, name+".mod")
	os.WriteFile(mf, gm, 0o644)
	gs, _ := os.ReadFile(filepath.Join(root, "go.sum"))
	os.WriteFile(filepath.Join(scratch, name+".sum"), gs, 0o644)
	return []string{"-modfile=" + mf}
}

// instrPkgs are the package directories whose lock sites are instrumented.
var instrPkgs = []string{".", "layers", "reassembly", "tcpassembly", "tcpassembly/tcpreader", "ip4defrag", "ip6defrag", "pcapgo"}

// instrumented brings the instrumented copy of repo up to date and returns
// its path together with a function releasing the lock that protects it
// (concurrent checks of the same tree share the copy and the build cache).
func instrumented(repo string) (string, func()) {
	h := sha256.Sum256([]byte(repo))
	dst := filepath.Join("/dev/shm", fmt.Sprintf("verif-instr-%x", h[:6]))
	lf, err := os.OpenFile(dst+".lock", os.O_CREATE|os.O_RDWR, 0o644)
	if err != nil {
		fatal2("%v", err)
	}
	if err := syscall.Flock(int(lf.Fd()), syscall.LOCK_EX); err != nil {
		fatal2("flock: %v", err)
	}
	unlock := func() { syscall.Flock(int(lf.Fd()), syscall.LOCK_UN); lf.Close() }
	os.MkdirAll(dst, 0o755)
	run := func(name string, args ...string) {
		cmd := exec.Command(name, args...)
		cmd.Dir = root
		cmd.Env = goEnv()
		if out, err := cmd.CombinedOutput(); err != nil {
			unlock()
			fatal2("%s %v: %v\n%s", name, args, err, out)
		}
	}
	run("rsync", "-a", "--delete", "--exclude", ".git", repo+"/", dst+"/")
	run("/opt/veriftools/go1.26.8/bin/go", "build", "-o", filepath.Join(root, "bin", "instrument"), "./cmd/instrument")
	var dirs []string
	for _, p := range instrPkgs {
		dirs = append(dirs, filepath.Join(dst, p))
	}
	run(filepath.Join(root, "bin", "instrument"), dirs...)
	return dst, unlock
}

func binDir() string {
	if r := repoPath(); r != "/repo" {
		h := sha256.Sum256([]byte(r))
		return filepath.Join("/dev/shm", fmt.Sprintf("verif-bin-%x", h[:6]))
	}
	return filepath.Join(root, "bin")
}

func build(u Unit, scratch string) string {
	bd := binDir()
	os.MkdirAll(bd, 0o755)
	out := filepath.Join(bd, u.Name+".test")
	args := []string{"test", "-c", "-tags", "verif", "-vet=off"}
	if u.Race {
		args = append(args, "-race")
	}
	repo := repoPath()
	if u.Instr {
		var unlock func()
		repo, unlock = instrumented(repo)
		defer unlock()
	}
	args = append(args, modfileArgs(scratch, repo, u.Name)...)
	args = append(args, "-o", out, u.Pkg)
	cmd := exec.Command("/opt/veriftools/go1.26.8/bin/go", args...)
	cmd.Dir = root
	cmd.Env = goEnv()
	var buf bytes.Buffer
	cmd.Stdout, cmd.Stderr = &buf, &buf
	if err := cmd.Run(); err != nil {
		fatal2("build of %s failed: %v\n%s", u.Name, err, buf.String())
	}
	return out
}

type childRes struct {
	out      *sim.Out
	stderr   string
	err      error
	path     string
	timedOut bool
}

func runChild(bin string, sp sim.Spec, timeout time.Duration, extraEnv ...string) childRes {
	b, _ := json.Marshal(sp)
	cmd := exec.Command(bin, "-test.run", "^TestChild$", "-test.timeout", "0")
	cmd.Env = append(os.Environ(), "VERIF_CHILD="+string(b))
	cmd.Env = append(cmd.Env, extraEnv...)
	var eb bytes.Buffer
	cmd.Stderr = &eb
	cmd.Stdout = &eb
	if err := cmd.Start(); err != nil {
		return childRes{err: err}
	}
	done := make(chan error, 1)
	go func() { done <- cmd.Wait() }()
	var err error
	select {
	case err = <-done:
	case <-time.After(timeout):
		// ask the Go runtime for the stacks of all goroutines first, so that a
		// run that does not finish can be attributed to a function
		cmd.Process.Signal(syscall.SIGQUIT)
		select {
		case <-done:
		case <-time.After(5 * time.Second):
			cmd.Process.Kill()
			<-done
		}
		return childRes{err: fmt.Errorf("watchdog: child %d of %s exceeded %v", sp.Idx, sp.Sim, timeout), stderr: eb.String(), timedOut: true, path: sp.Out}
	}
	res := childRes{stderr: eb.String(), path: sp.Out}
	ob, rerr := os.ReadFile(sp.Out)
	if rerr != nil {
		res.err = fmt.Errorf("child %d of %s wrote no result (%v): %v", sp.Idx, sp.Sim, err, tail(eb.String(), 4000))
		return res
	}
	os.Remove(sim.CurFile(sp.Out))
	var o sim.Out
	if jerr := json.Unmarshal(ob, &o); jerr != nil {
		res.err = jerr
		return res
	}
	res.out = &o
	if o.Bug != "" {
		res.err = fmt.Errorf("harness trouble in %s: %s", sp.Sim, o.Bug)
	}
	return res
}

// crashSig turns the stderr of a child that died (fatal error of the Go
// runtime) or had to be stopped (a run that does not finish) into a
// violation: clause, kind and the innermost gopacket function on the stack.
func crashSig(stderr string, timedOut bool) (sim.Violation, bool) {
	where := "unknown"
	for _, l := range strings.Split(stderr, "\n") {
		l = strings.TrimSpace(l)
		if strings.HasPrefix(l, "github.com/gopacket/gopacket") {
			if i := strings.LastIndex(l, "("); i > 0 {
				l = l[:i]
			}
			where = strings.TrimPrefix(strings.TrimPrefix(l, "github.com/gopacket/gopacket/"), "github.com/gopacket/gopacket.")
			break
		}
	}
	if timedOut {
		return sim.Violation{Clause: "no-hang", Kind: "run-does-not-finish", Where: where, Detail: "a single simulated run did not finish within the watchdog time; stacks at the time it was stopped:\n" + tail(stderr, 6000)}, true
	}
	i := strings.Index(stderr, "fatal error: ")
	if i < 0 {
		return sim.Violation{}, false
	}
	msg := stderr[i+len("fatal error: "):]
	if j := strings.IndexByte(msg, '\n'); j >= 0 {
		msg = msg[:j]
	}
	v := sim.Violation{Clause: "no-crash", Kind: "fatal-error", Where: fmt.Sprintf("%q in %s", msg, where), Detail: headStr(stderr[max(0, i-300):], 5000)}
	if strings.Contains(msg, "out of memory") || strings.Contains(msg, "cannot allocate") {
		v.Clause, v.Kind, v.Where = "allocation", "out-of-memory", where
	}
	return v, true
}

// runSingle executes exactly one run (seed, index) in a fresh child and
// returns what it found; a child that dies or hangs again is turned into a
// violation by crashSig. ok=false: the crash did not reproduce.
func runSingle(bin string, base sim.Spec, run int, out string, env []string) (found []sim.Found, ok bool) {
	sp := base
	sp.Mode, sp.Idx, sp.Stride, sp.MaxRuns, sp.BudgetMs, sp.MaxShrink = "explore", run, 1, run+1, 0, 40
	sp.Out = out
	if sp.RaceLog != "" {
		sp.RaceLog = out + ".race"
	}
	r := runChild(bin, sp, 90*time.Second, env...)
	if r.err == nil && r.out != nil {
		return r.out.Found, len(r.out.Found) > 0
	}
	if r.out != nil && r.out.Bug != "" {
		return nil, false
	}
	v, is := crashSig(r.stderr, r.timedOut)
	if !is {
		return nil, false
	}
	return []sim.Found{{Sig: v.Sig(), V: v, Seed: base.Seed, Run: run, Sim: base.Sim, Tier: base.Tier, Race: base.Race, Count: 1, BySeed: true}}, true
}

// attribute handles a child that died or hung: the run in progress is read
// from the child's cur file and re-executed alone; if it fails again (or ends
// in an ordinary violation) that is the verdict, otherwise it stays trouble.
func attribute(bin string, sp sim.Spec, r childRes, env []string) ([]sim.Found, bool) {
	if _, is := crashSig(r.stderr, r.timedOut); !is {
		return nil, false
	}
	b, err := os.ReadFile(sim.CurFile(sp.Out))
	if err != nil || len(b) < 8 {
		fmt.Fprintf(os.Stderr, "verif: no record of the run in progress for child %d of %s (%v)\n", sp.Idx, sp.Sim, err)
		return nil, false
	}
	cur := binary.LittleEndian.Uint64(b)
	if cur == 0 {
		return nil, false
	}
	found, ok := runSingle(bin, sp, int(cur-1), sp.Out+".attr", env)
	fmt.Fprintf(os.Stderr, "verif: child %d of %s was lost in run %d (timed out: %v); re-executing that run alone: reproduced=%v\n", sp.Idx, sp.Sim, cur-1, r.timedOut, ok)
	return found, ok
}

func headStr(s string, n int) string {
	if len(s) > n {
		return s[:n] + "…"
	}
	return s
}

func tail(s string, n int) string {
	if len(s) > n {
		return "…" + s[len(s)-n:]
	}
	return s
}

type Known struct {
	Property string `json:"property"`
	Status   string `json:"status"` // open | fixed
	Sig      string `json:"sig"`    // exact signature, or prefix when it ends in *
	What     string `json:"what"`
	Replay   string `json:"replay,omitempty"`
	Commit   string `json:"commit,omitempty"`
}

func loadKnown() []Known {
	b, err := os.ReadFile(filepath.Join(root, "known_findings.json"))
	if err != nil {
		return nil
	}
	var k struct {
		Findings []Known `json:"findings"`
	}
	if err := json.Unmarshal(b, &k); err != nil {
		fatal2("known_findings.json: %v", err)
	}
	return k.Findings
}

func matchKnown(ks []Known, prop, sig string) *Known {
	for i := range ks {
		k := &ks[i]
		if k.Property != prop || k.Status != "open" {
			continue
		}
		if k.Sig == sig || (strings.HasSuffix(k.Sig, "*") && strings.HasPrefix(sig, strings.TrimSuffix(k.Sig, "*"))) {
			return k
		}
	}
	return nil
}

// ReplayFile is the on-disk replay format.
type ReplayFile struct {
	Property  string        `json:"property"`
	Unit      string        `json:"unit"`
	Sim       string        `json:"sim"`
	Race      bool          `json:"race"`
	Tier      string        `json:"tier"`
	Seed      uint64        `json:"seed"`
	Run       int           `json:"run"`
	Signature string        `json:"signature"`
	Violation sim.Violation `json:"violation"`
	Tape      []uint32      `json:"tape"`
	OrigLen   int           `json:"orig_tape_len"`
	LogFP     string        `json:"log_fp"`
	Log       []string      `json:"log"`
	// BySeed: the run ended the process (fatal error, hang), so no tape could
	// be recorded; the replay re-executes run number Run of seed Seed
	BySeed bool `json:"by_seed,omitempty"`
}

func envInt(name string, def int) int {
	if v := os.Getenv(name); v != "" {
		if n, err := strconv.Atoi(v); err == nil {
			return n
		}
	}
	return def
}

func check(prop, tier string) int {
	pd, ok := props[prop]
	if !ok {
		fatal2("unknown or unclaimed property %s", prop)
	}
	seed := uint64(envInt("VERIF_SEED", 1))
	start := time.Now()
	scratch, err := os.MkdirTemp("/dev/shm", "verif-"+prop+"-")
	if err != nil {
		scratch, err = os.MkdirTemp("", "verif-"+prop+"-")
		if err != nil {
			fatal2("%v", err)
		}
	}
	defer os.RemoveAll(scratch)
	budget := pd.QuickS
	if tier == "thorough" {
		budget = pd.ThoroughS
	}
	budget = envInt("VERIF_BUDGET_S", budget)
	workers := envInt("VERIF_WORKERS", 16)

	type unitRes struct {
		u    Unit
		outs []*sim.Out
	}
	var all []unitRes
	fps := map[uint64]struct{}{}
	states := map[uint64]struct{}{}
	trouble := ""
	var crashed atomic.Int32
	only := os.Getenv("VERIF_UNITS") // investigation aid: comma-separated unit names, whole budget each
	for _, u := range pd.Units {
		if only != "" {
			if !contains(strings.Split(only, ","), u.Name) {
				continue
			}
			u.Share = 1
		}
		bin := build(u, scratch)
		ub := time.Duration(float64(budget)*u.Share*1000) * time.Millisecond
		var wg sync.WaitGroup
		var resMu sync.Mutex
		var res []childRes
		for i := 0; i < workers; i++ {
			wg.Add(1)
			go func(i int) {
				defer wg.Done()
				deadline := time.Now().Add(ub)
				for iter := 0; ; iter++ {
					sp := sim.Spec{Sim: u.Sim, Prop: prop, Mode: "explore", Seed: seed, Idx: i, Stride: workers,
						BudgetMs: ub.Milliseconds(), Tier: tier, Out: filepath.Join(scratch, fmt.Sprintf("%s-%d-%d.json", u.Name, i, iter)),
						MaxShrink: envInt("VERIF_MAX_SHRINK", 1500), Race: u.Race, Procs: u.Procs,
						MaxRuns: envInt("VERIF_MAX_RUNS", 0), MemLimitMB: u.MemMB}
					if u.Cold {
						// one run per process: run number i + iter*workers
						sp.Idx, sp.Stride, sp.BudgetMs = i+iter*workers, 1, 0
						sp.MaxRuns = sp.Idx + 1
					}
					var env []string
					if u.Race {
						sp.RaceLog = sp.Out + ".race"
						env = append(env, "GORACE=halt_on_error=0 log_path="+sp.RaceLog)
					}
					r := runChild(bin, sp, ub+ub/2+120*time.Second, env...)
					if r.err != nil && r.out == nil {
						if found, ok := attribute(bin, sp, r, env); ok {
							// the process is lost, its verdict is not
							r = childRes{out: &sim.Out{Sim: u.Sim, Found: found, Faults: map[string]int{}, Probes: map[string]int{}}, path: sp.Out}
							crashed.Add(1)
						}
					}
					resMu.Lock()
					res = append(res, r)
					resMu.Unlock()
					if !u.Cold || r.err != nil || time.Now().After(deadline) || (envInt("VERIF_MAX_RUNS", 0) > 0 && (iter+1)*workers >= envInt("VERIF_MAX_RUNS", 0)) {
						break
					}
				}
			}(i)
		}
		wg.Wait()
		ur := unitRes{u: u}
		for _, r := range res {
			if r.err != nil {
				trouble = r.err.Error() + "\n" + tail(r.stderr, 3000)
				continue
			}
			ur.outs = append(ur.outs, r.out)
			sim.ReadSetInto(r.path+".fp", fps)
			sim.ReadSetInto(r.path+".st", states)
		}
		all = append(all, ur)
	}
	// Trouble in one child (a harness assertion, a build problem, a watchdog
	// trip that could not be attributed) never hides what the other children
	// and units found: violations are still reported (exit 1); with none, the
	// trouble is the result (exit 2, nothing written as evidence).
	// merge
	runs, nontriv := 0, 0
	var events, simNs, tapeVals int64
	faults, probes := map[string]int{}, map[string]int{}
	perUnit := map[string]any{}
	var samples []any
	type fnd struct {
		u Unit
		f sim.Found
	}
	bySig := map[string]*fnd{}
	var sigs []string
	for _, ur := range all {
		uruns := 0
		for _, o := range ur.outs {
			runs += o.Runs
			uruns += o.Runs
			nontriv += o.NonTriv
			events += o.Events
			simNs += o.SimTimeNs
			tapeVals += o.TapeVals
			for k, v := range o.Faults {
				faults[k] += v
			}
			for k, v := range o.Probes {
				probes[ur.u.Sim+":"+k] += v
			}
			for _, f := range o.Found {
				key := ur.u.Name + "|" + f.Sig
				if e, ok := bySig[key]; ok {
					e.f.Count += f.Count
					if len(f.Tape) < len(e.f.Tape) {
						c := e.f.Count
						e.f = f
						e.f.Count = c
					}
				} else {
					bySig[key] = &fnd{ur.u, f}
					sigs = append(sigs, key)
				}
			}
		}
		if len(ur.outs) > 0 && len(ur.outs[0].Samples) > 0 && len(samples) < 4 {
			samples = append(samples, map[string]any{"unit": ur.u.Name, "trace": ur.outs[0].Samples[0]})
		}
		perUnit[ur.u.Name] = map[string]any{"runs": uruns, "race_build": ur.u.Race, "sim": ur.u.Sim}
	}
	sort.Strings(sigs)
	known := loadKnown()
	os.MkdirAll(filepath.Join(root, "replays", "out"), 0o755)
	violations, knownSeen := 0, 0
	raceShrunk := 0
	var vlist []any
	for _, key := range sigs {
		e := bySig[key]
		if e.u.Race && strings.HasPrefix(e.f.Sig, "no-race/") && matchKnown(known, prop, e.f.Sig) == nil && envInt("VERIF_RACE_SHRINK", 1) == 1 && raceShrunk < 3 {
			raceShrunk++
			shrinkRace(&e.f, e.u, prop, tier, scratch)
		}
		rf := ReplayFile{Property: prop, Unit: e.u.Name, Sim: e.u.Sim, Race: e.u.Race, Tier: tier, Seed: e.f.Seed, Run: e.f.Run,
			Signature: e.f.Sig, Violation: e.f.V, Tape: e.f.Tape, OrigLen: e.f.OrigLen, LogFP: e.f.LogFP, Log: e.f.Log, BySeed: e.f.BySeed}
		h := sha256.Sum256([]byte(key))
		path := filepath.Join(root, "replays", "out", fmt.Sprintf("%s-%x.json", prop, h[:5]))
		b, _ := json.MarshalIndent(rf, "", " ")
		os.WriteFile(path, b, 0o644)
		if k := matchKnown(known, prop, e.f.Sig); k != nil {
			knownSeen++
			fmt.Printf("KNOWN-FINDING: property=%s %s [%s] (seen %d times; replay %s)\n", prop, k.What, e.f.Sig, e.f.Count, path)
			vlist = append(vlist, map[string]any{"signature": e.f.Sig, "known": true, "count": e.f.Count, "unit": e.u.Name})
			continue
		}
		violations++
		fmt.Printf("VIOLATION property=%s replay=%s\n", prop, path)
		fmt.Printf("  signature: %s\n  detail: %s\n  unit=%s seed=%d run=%d tape %d -> %d values, seen %d times\n", e.f.Sig, firstLines(e.f.V.Detail, 14), e.u.Name, e.f.Seed, e.f.Run, e.f.OrigLen, len(e.f.Tape), e.f.Count)
		vlist = append(vlist, map[string]any{"signature": e.f.Sig, "known": false, "count": e.f.Count, "unit": e.u.Name, "replay": path})
	}
	if trouble != "" {
		fmt.Fprintln(os.Stderr, "verif: "+trouble)
		if violations == 0 {
			return 2
		}
		fmt.Fprintln(os.Stderr, "verif: (the trouble above is reported next to the violations found by the other children)")
	}
	wall := time.Since(start).Seconds()
	var zero []string
	for _, ur := range all {
		for _, p := range probeNames[ur.u.Sim] {
			if probes[ur.u.Sim+":"+p] == 0 {
				zero = append(zero, ur.u.Sim+":"+p)
			}
		}
	}
	if len(zero) > 0 {
		fmt.Fprintf(os.Stderr, "verif: warning: probes never reached in this batch: %v\n", zero)
	}
	dn := len(fps)
	cov := map[string]any{
		"evaluations":              runs,
		"distinct_nontrivial":      dn,
		"rule":                     pd.Rule,
		"samples":                  samples,
		"nontrivial_runs":          nontriv,
		"events":                   events,
		"tape_values_drawn":        tapeVals,
		"runs_per_hour":            int(float64(runs) / wall * 3600),
		"simulated_time_s":         float64(simNs) / 1e9,
		"faults_fired":             faults,
		"probes":                   probes,
		"probes_never_reached":     zero,
		"distinct_abstract_states": len(states),
		"units":                    perUnit,
		"real_vs_stub":             pd.RealStub,
		"findings":                 vlist,
		"known_findings_seen":      knownSeen,
		"workers":                  workers,
		"budget_s":                 budget,
	}
	ev := map[string]any{
		"property_id": prop, "tier": tier, "seed": seed, "level": pd.Level,
		"coverage": cov, "assumptions": pd.Assume, "wall_s": wall, "violations": violations,
	}
	os.MkdirAll(filepath.Join(root, "evidence"), 0o755)
	b, _ := json.MarshalIndent(ev, "", " ")
	if err := os.WriteFile(filepath.Join(root, "evidence", prop+".json"), b, 0o644); err != nil {
		fatal2("%v", err)
	}
	fmt.Printf("%s %s: seed=%d runs=%d nontrivial=%d distinct=%d states=%d faults=%d violations=%d known=%d wall=%.0fs\n",
		prop, tier, seed, runs, nontriv, dn, len(states), sum(faults), violations, knownSeen, wall)
	if violations > 0 {
		return 1
	}
	if runs == 0 {
		fmt.Fprintln(os.Stderr, "verif: no runs completed")
		return 2
	}
	return 0
}

// shrinkRace minimises the tape of a race report. The detector reports a pair
// of stacks once per process, so every attempt is a fresh child in replay mode.
func shrinkRace(f *sim.Found, u Unit, prop, tier, scratch string) {
	bin := filepath.Join(binDir(), u.Name+".test")
	deadline := time.Now().Add(time.Duration(envInt("VERIF_RACE_SHRINK_S", 40)) * time.Second)
	n := 0
	test := func(tape []uint32) bool {
		if time.Now().After(deadline) {
			return false
		}
		n++
		sp := sim.Spec{Sim: u.Sim, Prop: prop, Mode: "replay", Tier: tier, Tape: tape, Out: filepath.Join(scratch, fmt.Sprintf("shrink-%s-%d.json", u.Name, n)), Race: true, Procs: u.Procs}
		sp.RaceLog = sp.Out + ".race"
		r := runChild(bin, sp, 60*time.Second, "GORACE=halt_on_error=0 log_path="+sp.RaceLog)
		if r.err != nil || r.out == nil {
			return false
		}
		for _, x := range r.out.Found {
			if x.Sig == f.Sig {
				return true
			}
		}
		return false
	}
	if !test(f.Tape) {
		return // does not reproduce in a fresh process: keep the recorded tape
	}
	min := sim.Shrink(f.Tape, test, 200)
	f.Shrinks = n
	f.Tape = min
}

func firstLines(s string, n int) string {
	l := strings.Split(s, "\n")
	if len(l) > n {
		l = append(l[:n], "    ... (full text in the replay file)")
	}
	return strings.Join(l, "\n")
}

func sum(m map[string]int) int {
	n := 0
	for _, v := range m {
		n += v
	}
	return n
}

func findUnit(prop, unit string) (Unit, bool) {
	for _, u := range props[prop].Units {
		if u.Name == unit {
			return u, true
		}
	}
	return Unit{}, false
}

func replay(path string) int {
	b, err := os.ReadFile(path)
	if err != nil {
		fatal2("%v", err)
	}
	var rf ReplayFile
	if err := json.Unmarshal(b, &rf); err != nil {
		fatal2("%v", err)
	}
	u, ok := findUnit(rf.Property, rf.Unit)
	if !ok {
		fatal2("replay names unknown unit %s/%s", rf.Property, rf.Unit)
	}
	scratch, _ := os.MkdirTemp("/dev/shm", "verif-replay-")
	defer os.RemoveAll(scratch)
	bin := build(u, scratch)
	sp := sim.Spec{Sim: u.Sim, Prop: rf.Property, Mode: "replay", Tier: rf.Tier, Tape: rf.Tape, Out: filepath.Join(scratch, "r.json"), Race: u.Race, Procs: u.Procs, MemLimitMB: u.MemMB}
	var env []string
	if u.Race {
		sp.RaceLog = sp.Out + ".race"
		env = append(env, "GORACE=halt_on_error=0 log_path="+sp.RaceLog)
	}
	var r childRes
	if rf.BySeed {
		sp.Seed = rf.Seed
		found, _ := runSingle(bin, sp, rf.Run, sp.Out, env)
		r.out = &sim.Out{Found: found}
	} else {
		r = runChild(bin, sp, 120*time.Second, env...)
	}
	if r.err != nil {
		fmt.Fprintln(os.Stderr, "verif:", r.err, tail(r.stderr, 2000))
		return 2
	}
	if len(r.out.Samples) > 0 {
		for _, l := range r.out.Samples[0] {
			fmt.Println(l)
		}
	}
	if len(r.out.Found) == 0 {
		fmt.Printf("replay of %s: no violation (recorded signature: %s)\n", path, rf.Signature)
		return 0
	}
	code := 0
	reproduced := false
	for _, f := range r.out.Found {
		same := f.Sig == rf.Signature
		reproduced = reproduced || same
		fmt.Printf("replay of %s: %s\n  detail: %s\n  same signature as recorded: %v; log fingerprint %s (recorded %s)\n", path, f.Sig, f.V.Detail, same, f.LogFP, rf.LogFP)
		if k := matchKnown(loadKnown(), rf.Property, f.Sig); k != nil {
			fmt.Printf("KNOWN-FINDING: property=%s %s\n", rf.Property, k.What)
			continue
		}
		fmt.Printf("VIOLATION property=%s replay=%s\n", rf.Property, path)
		code = 1
	}
	if !reproduced {
		fmt.Printf("recorded signature %s not reproduced\n", rf.Signature)
	}
	return code
}

func selftest(which []string) int {
	scratch, _ := os.MkdirTemp("/dev/shm", "verif-selftest-")
	defer os.RemoveAll(scratch)
	n := envInt("VERIF_SELFTEST_RUNS", 200)
	bad := 0
	var ids []string
	for id := range props {
		ids = append(ids, id)
	}
	sort.Strings(ids)
	done := map[string]bool{}
	for _, id := range ids {
		if len(which) > 0 && !contains(which, id) {
			continue
		}
		for _, u := range props[id].Units {
			if done[u.Name] {
				continue
			}
			done[u.Name] = true
			bin := build(u, scratch)
			var ref []byte
			cfgs := []struct{ procs, stride int }{{1, 1}, {1, 1}, {4, 1}, {16, 1}, {1, 4}, {16, 4}}
			for ci, cf := range cfgs {
				var parts [][]byte
				var wg sync.WaitGroup
				parts = make([][]byte, cf.stride)
				errs := make([]error, cf.stride)
				for k := 0; k < cf.stride; k++ {
					wg.Add(1)
					go func(k int) {
						defer wg.Done()
						sp := sim.Spec{Sim: u.Sim, Mode: "fplist", Seed: 7, Idx: k, Stride: cf.stride, MaxRuns: n, Tier: "quick",
							Out: filepath.Join(scratch, fmt.Sprintf("%s-%d-%d", u.Name, ci, k)), Procs: cf.procs, Race: u.Race}
						var env []string
						if u.Race {
							sp.RaceLog = sp.Out + ".race"
							env = append(env, "GORACE=halt_on_error=0 log_path="+sp.RaceLog)
						}
						r := runChild(bin, sp, 600*time.Second, env...)
						errs[k] = r.err
						parts[k], _ = os.ReadFile(sp.Out + ".fplist")
					}(k)
				}
				wg.Wait()
				for _, e := range errs {
					if e != nil {
						fmt.Fprintln(os.Stderr, "verif selftest:", e)
						return 2
					}
				}
				var lines []string
				for _, p := range parts {
					lines = append(lines, strings.Split(strings.TrimSpace(string(p)), "\n")...)
				}
				sort.Slice(lines, func(i, j int) bool {
					a, _ := strconv.Atoi(strings.SplitN(lines[i], " ", 2)[0])
					b, _ := strconv.Atoi(strings.SplitN(lines[j], " ", 2)[0])
					return a < b
				})
				got := []byte(strings.Join(lines, "\n"))
				if ref == nil {
					ref = got
				} else if !bytes.Equal(ref, got) {
					bad++
					fmt.Printf("NONDETERMINISM unit=%s config=%+v\n", u.Name, cf)
					rl, gl := strings.Split(string(ref), "\n"), lines
					for i := range rl {
						if i < len(gl) && rl[i] != gl[i] {
							fmt.Printf("  ref: %s\n  got: %s\n", rl[i], gl[i])
							break
						}
					}
				}
			}
			fmt.Printf("selftest %s: %d runs x %d process configurations compared\n", u.Name, n, len(cfgs))
		}
	}
	if bad > 0 {
		return 2
	}
	return 0
}

func contains(l []string, s string) bool {
	for _, x := range l {
		if x == s {
			return true
		}
	}
	return false
}

func main() {
	if r := os.Getenv("VERIF_ROOT"); r != "" {
		root = r
	}
	if len(os.Args) < 2 {
		fatal2("usage: verif check <prop> [--tier quick|thorough] | replay <file> | selftest")
	}
	switch os.Args[1] {
	case "check":
		if len(os.Args) < 3 {
			fatal2("check needs a property id")
		}
		tier := os.Getenv("VERIF_TIER")
		for i, a := range os.Args {
			if a == "--tier" && i+1 < len(os.Args) {
				tier = os.Args[i+1]
			}
		}
		if tier == "" {
			tier = "quick"
		}
		os.Exit(check(os.Args[2], tier))
	case "replay":
		if len(os.Args) < 3 {
			fatal2("replay needs a file")
		}
		os.Exit(replay(os.Args[2]))
	case "selftest":
		os.Exit(selftest(os.Args[2:]))
	case "build":
		scratch, _ := os.MkdirTemp("/dev/shm", "verif-build-")
		defer os.RemoveAll(scratch)
		done := map[string]bool{}
		for _, pd := range props {
			for _, u := range pd.Units {
				if !done[u.Name] {
					done[u.Name] = true
					build(u, scratch)
				}
			}
		}
	default:
		fatal2("unknown command %s", os.Args[1])
	}
}

package main

var tcpAssume = []string{
	"senders retransmit consistent data (same bytes for the same sequence numbers); SYN carries no data; FIN/RST only at the end of the stream",
	"capture timestamps come from the simulated clock through the ...WithTimestamp/WithContext entry points",
	"the flush visiting order (map order in the shipped code) is fixed by the verif hook so that runs replay",
}

var props = map[string]PropDef{
	"C10": {Level: "exploration", QuickS: 45, ThoroughS: 600,
		Units:    []Unit{{Name: "tcpasm-c10", Pkg: "./props/tcpasm", Sim: "c10", Share: 0.85}, {Name: "tcpasm-c10-clock", Pkg: "./props/tcpasm", Sim: "c10clock", Share: 0.15}},
		Rule:     "one evaluation = one simulated run (seeded plan: 1-3 connections, segmentation, ISN class, network faults, flush timers, page limits; then every event fed to the real assembler with the delivery model checked after each); non-trivial = at least one fault fired (drop, duplicate, reorder delay, burst hold-back, overlapping retransmission, delayed SYN, flush timer); distinct = distinct event-log fingerprints among non-trivial runs",
		RealStub: "real: tcpassembly.Assembler, StreamPool, page cache; stub: TCP senders, network, clock, Stream/StreamFactory (the oracle)",
		Assume:   tcpAssume},
}

// probeNames lists, per sim, the rare-condition probes whose count is watched.
func init() {
	props["C09"] = PropDef{Level: "exploration", QuickS: 45, ThoroughS: 600,
		Units:    []Unit{{Name: "reasm-c09", Pkg: "./props/reasm", Sim: "c09", Share: 0.85}, {Name: "reasm-c09-clock", Pkg: "./props/reasm", Sim: "c09clock", Share: 0.15}},
		Rule:     props["C10"].Rule + "; additionally the stream stub's KeepFrom policy (never / all / random offset / nothing / only on last) is a per-run knob and 'stream_keeps_bytes' counts as a fault",
		RealStub: "real: reassembly.Assembler, StreamPool, page cache, ScatterGather; stub: TCP senders, network, clock, Stream/StreamFactory (the oracle)",
		Assume:   tcpAssume}
}

func init() {
	props["C11"] = PropDef{Level: "exploration", QuickS: 50, ThoroughS: 600,
		Units:    []Unit{{Name: "reasm-c11", Pkg: "./props/reasm", Sim: "c11r", Share: 0.5}, {Name: "tcpasm-c11", Pkg: "./props/tcpasm", Sim: "c11t", Share: 0.5}},
		Rule:     "one evaluation = one simulated run of 1-8 connections (open, transfer, FIN, RST, stall, re-open of the same 4-tuple), network faults, age-based flushes with and without closing, backward clock jumps, page limits, then flush-all; lifecycle, leak, page-limit and age-flush invariants audited after every event; non-trivial = at least one fault fired; distinct = distinct event-log fingerprints among non-trivial runs",
		RealStub: "real: reassembly and tcpassembly Assembler, StreamPool, page caches; stub: senders, network, clock, streams (completion answers are a per-run policy)",
		Assume:   tcpAssume}
}

func init() {
	props["C13"] = PropDef{Level: "exploration", QuickS: 40, ThoroughS: 600,
		Units:    []Unit{{Name: "defrag-v4", Pkg: "./props/defrag", Sim: "c13v4", Share: 0.6}, {Name: "defrag-v4-clock", Pkg: "./props/defrag", Sim: "c13v4clock", Share: 0.12}, {Name: "defrag-v6", Pkg: "./props/defrag", Sim: "c13v6", Share: 0.14}, {Name: "defrag-v6-clock", Pkg: "./props/defrag", Sim: "c13v6clock", Share: 0.14}},
		Rule:     "one evaluation = one simulated run: 1-4 datagrams over 1-4 (src,dst,id) keys (header 20-60 bytes, payload 9-65515 bytes, cut at seeded multiples of 8), network reordering/duplication/loss, key reuse, a hostile injector (conflicting overlaps, holes, undersized, oversize, >8192 fragments) and DiscardOlderThan timers on the simulated clock; reference model of the received set per key checked at every call; unit defrag-v4-clock feeds the same simulation through DefragIPv4, which stamps its lists with time.Now(), inside a synctest bubble whose fake clock the harness advances; unit defrag-v6-clock runs the IPv6 defragmenter inside a synctest bubble (it stamps its lists with time.Now()): fragments, clock advances and DiscardOlderThan with cut-offs behind and ahead of the clock, identifications reused once the model says their list is gone; non-trivial = at least one fault fired; distinct = distinct event-log fingerprints among non-trivial runs",
		RealStub: "real: ip4defrag.IPv4Defragmenter, ip6defrag.IPv6Defragmenter; stub: fragmenting senders, network, clock",
		Assume:   []string{"fragments are layers.IPv4 / layers.IPv6Fragment values built field by field with Length consistent with header and payload", "IPv6: one datagram per identification at a time; behaviour after completion is not checked; the count returned by the IPv6 DiscardOlderThan is not checked (completed lists stay until discarded), only what is forgotten", "the defragmenter may keep references to the fragments it was given (buffers are not reused by the harness)"}}
}

func init() {
	props["C14"] = PropDef{Level: "fault_enumeration", QuickS: 45, ThoroughS: 600,
		Units:    []Unit{{Name: "capfile-pcap", Pkg: "./props/capfile", Sim: "c14pcap", Share: 0.4}, {Name: "capfile-ng", Pkg: "./props/capfile", Sim: "c14ng", Share: 0.6}},
		Rule:     "one evaluation = one seeded capture (0-12 packets, all data-length residues mod 4, capture length <= length, timestamps across the format's range; pcapng: 1-3 interfaces some added between packets, section/interface strings including empty ones, per-packet options) written by the real writer into the simulated file, read back through a chunked simulated stream by the copying and zero-copy calls, and then cut at EVERY byte offset (files up to 2 KiB; write boundaries +-2 and 64 seeded offsets beyond) with the reader required to return exactly the wholly contained packets and then an EOF-class error; a seeded subset is also read by libpcap (cgo); non-trivial = at least one crash cut, short-read mode or data-with-EOF fired; distinct = distinct event-log fingerprints among non-trivial runs",
		RealStub: "real: pcapgo.Writer, NgWriter, Reader, NgReader, bufio, libpcap via pcap.OpenOffline; stub: the file (sim/disk.File), the stream (sim/disk.Stream)",
		Assume:   []string{"the writer is flushed after every packet so that block boundaries are known; a crash is a cut of the bytes written so far", "libpcap is only asked to read files with one link type and snap length", "timestamps are never the zero time.Time (the pcap writer substitutes the wall clock for it)"}}
}

func init() {
	props["C15"] = PropDef{Level: "exploration", QuickS: 45, ThoroughS: 600,
		Units:    []Unit{{Name: "capfile-hostile", Pkg: "./props/capfile", Sim: "c15", Share: 1, MemMB: 3072}},
		Rule:     "one evaluation = one seeded input (a structurally valid pcap / pcapng / snoop file built field by field by the harness, little or big endian, with every header, block, option and record field a named mutation target; then 0-2 field corruptions from a boundary value set, or a random tail, or a truncation; optionally gzip-wrapped, bit-flipped or cut) read through the fault-free stream, two differently chunked streams and a stream that fails at a seeded offset (every offset for inputs up to 512 bytes in the thorough tier), with the copying or zero-copy call; oracles: no panic, no spin at EOF, allocation per call within 1 MiB + 4 x (bytes present + declared snap length), len(data)==CaptureLength<=Length, results independent of chunking, results before an injected error are a prefix of the fault-free results and the error surfaces; non-trivial = at least one corruption or stream fault fired; distinct = distinct event-log fingerprints among non-trivial runs",
		RealStub: "real: pcapgo.Reader, NgReader, SnoopReader, bufio, compress/gzip; stub: the byte stream (sim/disk.Stream)",
		Assume:   []string{"a corrupted declared snap length is capped at 1 MiB by the harness, because a declared snap length licenses an allocation of that size", "allocation is measured with runtime/metrics /gc/heap/allocs:bytes around each call in a single-goroutine child", "after a non-EOF error the harness keeps calling (up to 3 consecutive errors, 64 calls)"}}
}

func init() {
	props["C16"] = PropDef{Level: "exploration", QuickS: 45, ThoroughS: 600,
		Units:    []Unit{{Name: "pktsrc", Pkg: "./props/pktsrc", Sim: "c16", Share: 1}},
		Rule:     "one evaluation = one run inside a testing/synctest bubble: a scripted data source (packets with capture info, timeouts, other transient errors, one of seven end-of-input errors, plain or wrapped; copying or buffer-reusing zero-copy), a consumer (pull or channel interface), a canceller and the clock are released one at a time by the tape-driven controller, which waits for the whole bubble (PacketSource's own goroutine included) to block durably after every step; non-trivial = a transient/terminal error or a cancellation fired; distinct = distinct event-log fingerprints among non-trivial runs",
		RealStub: "real: gopacket.PacketSource (NextPacket, PacketsCtx, its background goroutine, channel, time.Sleep, context), NewPacket with DecodePayload; stub: data source, consumer, canceller; clock: synctest fake clock",
		Assume:   []string{"Go's select among ready cases is not owned: the one packet whose read was in progress at cancellation may or may not be delivered, both are accepted", "a small share of runs fills all 1000 slots of the channel before anything is consumed"}}
}

func init() {
	props["C20"] = PropDef{Level: "exploration", QuickS: 40, ThoroughS: 600,
		Units:    []Unit{{Name: "reader", Pkg: "./props/reader", Sim: "c20", Share: 0.45}, {Name: "reader-asm", Pkg: "./props/reader", Sim: "c20asm", Share: 0.3}, {Name: "reader-sweep", Pkg: "./props/reader", Sim: "c20sweep", Share: 0.25}},
		Rule:     "one evaluation = one run inside a testing/synctest bubble: an assembler-side actor delivers a seeded script (0-4 batches of 0-3 Reassembly elements with empty slices, skips, -1 skip, then completion, scribbling over each batch after its call returns) and a consumer actor reads with seeded buffer sizes (0,1,2,3,7,64,1500) and closes at a seeded point (before any read, between or inside batches, after EOF, twice); the controller picks which side moves; unit reader-sweep fixes one seeded small script (<= 3 batches, elements <= 8 bytes), one read-size sequence over {1,2,64} and one schedule, and then places Close at EVERY consumer step (before the first read, after each read, after EOF), each placement in a fresh bubble; non-trivial = a gap, empty slice/batch or early close fired; distinct = distinct event-log fingerprints among non-trivial runs",
		RealStub: "real: tcpreader.ReaderStream (Reassembled, ReassemblyComplete, Read, Close, its two channels); unit reader-asm additionally runs the real tcpassembly.Assembler, fed by the C10 network simulation, as the assembler side; stub: assembler side (script, unit reader) and consumer",
		Assume:   []string{"one consumer goroutine uses the reader (Read and Close are not called concurrently)", "the assembler calls ReassemblyComplete only after its last Reassembled call returned"}}
}

func init() {
	props["C12"] = PropDef{Level: "exploration", QuickS: 100, ThoroughS: 900,
		Units: []Unit{
			{Name: "tcpasm-c12", Pkg: "./props/tcpasm", Sim: "c12t", Share: 0.25, Instr: true},
			{Name: "reasm-c12", Pkg: "./props/reasm", Sim: "c12r", Share: 0.25, Instr: true},
			{Name: "tcpasm-c12-race", Pkg: "./props/tcpasm", Sim: "c12t", Race: true, Share: 0.25, Procs: 8, Instr: true},
			{Name: "reasm-c12-race", Pkg: "./props/reasm", Sim: "c12r", Race: true, Share: 0.25, Procs: 8, Instr: true},
		},
		Rule:     "one evaluation = one run of 2-3 assembler goroutines (plus an optional flusher with its own assembler) on one shared StreamPool under the cooperative scheduler: real goroutines, exactly one running, parked at every API call boundary, every stream callback and in front of every lock acquisition of the package (verif hook), the next runner drawn from the tape (pre-emption rate is a per-run knob); 1-3 short connections whose directions go to different workers (or whose packets are split across workers); the merged per-worker history is checked offline; non-trivial = at least one pre-emption or a concurrent flusher; distinct = distinct event-log fingerprints among non-trivial runs; distinct interleavings = distinct hashes of the (worker, yield site) sequence, reported as distinct_abstract_states",
		RealStub: "real: tcpassembly / reassembly Assembler and StreamPool under 2-4 goroutines with their real mutexes; stub: packet senders, streams (the history recorder); scheduler: sim/coop",
		Assume:   append([]string{"interleavings are explored at yield points (API calls, callbacks, lock acquisitions); code between two yield points runs atomically", "a worker released at a lock hook tries the lock first (TryLock/Unlock), so the controller knows who is blocked without rewriting the locks"}, tcpAssume...)}
}

func init() {
	pktAssume := []string{"interleavings are explored at API-call granularity (the decode path takes no locks); the race detector, which is happens-before based, covers what the scheduler cannot interleave", "packets are handed between goroutines through one atomic pointer each, the synchronisation any program needs for a hand-over", "inputs are Ethernet/Dot1Q/IPv4/IPv6/TCP/UDP/DNS/ICMPv4/ICMPv6/GRE/ARP stacks serialised by the harness, plus truncations and bit flips; oracles compare decodes with decodes, never with golden values"}
	props["C02"] = PropDef{Level: "exploration", QuickS: 45, ThoroughS: 600,
		Units:    []Unit{{Name: "packet-c02", Pkg: "./props/packet", Sim: "c02", Share: 0.3, Instr: true}, {Name: "packet-c02-race", Pkg: "./props/packet", Sim: "c02", Race: true, Share: 0.5, Procs: 8, Instr: true}, {Name: "packet-c02-cold", Pkg: "./props/packet", Sim: "c02cold", Share: 0.2, Instr: true, Cold: true}},
		Rule:     "one evaluation = one run of 2-4 goroutines under the cooperative scheduler over a seeded corpus of 4-12 inputs: decoders (NewPacket with four option sets, compared with a quiet-state reference decode of the same bytes), publishers (eager packet + recorded accessor answers) and readers (Layers, Layer(t), LayerClass, link/network/transport/application/error layer, String, Dump, flows, VerifyChecksums on shared packets); the -race unit runs the same simulation with a hand-off hidden from the race detector; non-trivial = at least one pre-emption or corrupted input; distinct = distinct event-log fingerprints among non-trivial runs",
		RealStub: "real: gopacket.NewPacket, eager packet accessors, layer decoders, VerifyChecksums, String/Dump; stub: callers (scheduler workers)",
		Assume:   pktAssume}
	props["C04"] = PropDef{Level: "exploration", QuickS: 45, ThoroughS: 600,
		Units:    []Unit{{Name: "packet-c04", Pkg: "./props/packet", Sim: "c04", Share: 0.5, Instr: true}, {Name: "packet-c04-race", Pkg: "./props/packet", Sim: "c04", Race: true, Share: 0.5, Procs: 8, Instr: true}},
		Rule:     "one evaluation = one run of 2-4 goroutines under the cooperative scheduler, each executing a seeded sequence of decode (default / NoCopy / Pool / Pool+Lazy / Lazy), dispose (own pooled packets, exactly once), overwrite (the producer reuses its input buffer) and hand-over to another goroutine, over inputs whose lengths include 0, 1, 1499, 1500, 1501 and 3000; after every step each live copied packet must still have the signature it was created with, NoCopy/Pool decodes must equal the default decode, and no two undisposed pooled packets may share a pool block; non-trivial = at least one pre-emption or corrupted input; distinct = distinct event-log fingerprints among non-trivial runs",
		RealStub: "real: gopacket.NewPacket, sync.Pool of packet blocks, PooledPacket.Dispose, lazy and eager packets; stub: callers (scheduler workers)",
		Assume:   append([]string{"which pool block a decode receives is not owned by the simulator (sync.Pool has per-P caches and drops items at random under -race); verdicts do not depend on it"}, pktAssume...)}
}

var probeNames = map[string][]string{
	"c02":        {},
	"c04":        {"two_pooled_packets_live"},
	"c09":        {"stream_crosses_wrap", "wrap_inside_delivery", "flush_forced_skip", "limit_forced_skip", "syn_overtaken_by_data", "gap_announced", "delivery_without_start", "kept_bytes_presented", "multi_page_with_saved"},
	"c10":        {"stream_crosses_wrap", "wrap_inside_delivery", "flush_forced_skip", "limit_forced_skip", "syn_overtaken_by_data", "gap_announced", "delivery_without_start"},
	"c11r":       {"flush_forced_skip", "limit_forced_skip"},
	"c11t":       {"flush_forced_skip", "limit_forced_skip"},
	"c12t":       {"preempted_runs", "completed_concurrently", "flush_forced_skip", "stream_created_and_discarded", "reopened_connection_delivered"},
	"c12r":       {"preempted_runs", "completed_concurrently", "flush_forced_skip", "stream_created_and_discarded", "reopened_connection_delivered"},
	"c13v4":      {"datagram_reassembled", "datagram_with_options_reassembled", "unfragmented_passthrough", "partial_datagram_discarded", "key_collision_mixed", "hostile_set_reassembled", "8000_fragments_reassembled"},
	"c13v6":      {"ipv6_reassembled"},
	"c13v4clock": {"defragmented_on_simulated_clock", "partial_datagram_discarded"},
	"c13v6clock": {"ipv6_reassembled_on_simulated_clock", "partial_ipv6_datagram_forgotten"},
	"c14pcap":    {"exhaustive_cut_sweep", "libpcap_read_pcap"},
	"c14ng":      {"exhaustive_cut_sweep", "libpcap_read_pcapng", "interface_with_timestamp_offset", "interface_added_between_packets", "secrets_block_between_packets", "statistics_block_between_packets"},
	"c15":        {"short_reads_delivered"},
	"c16":        {"retry_after_transient_error", "cancel_during_read", "zero_copy_nocopy_refused", "three_or_more_packets", "channel_full_backpressure", "cancelled_and_abandoned", "cancelled_while_blocked_on_full_channel", "concatenated_sources", "channel_requested_twice", "concatenation_read_again_after_its_end", "pooled_decodes_after_the_run"},
	"c20":        {"read_to_eof", "closed_early", "closed_between_batches", "closed_inside_a_batch", "drained_to_eof"},
	"c20asm":     {"read_to_eof", "closed_early", "real_assembler_run"},
	"c20sweep":   {"close_point_sweep", "closed_early", "closed_between_batches", "closed_inside_a_batch"},
}

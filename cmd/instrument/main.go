// Command instrument rewrites the non-test Go files of the given package
// directories (of a scratch copy of gopacket, never of /repo itself) so that
// every statement `x.Lock()` / `x.RLock()` is preceded by
//
//	verifhook.BeforeLock(&x, write, site)
//
// and every statement `x.Unlock()` / `x.RUnlock()` is followed by
// verifhook.BeforeLock(nil, false, site), a plain scheduling point,
//
// which gives the cooperative scheduler a scheduling point, with knowledge of
// the lock about to be taken, in front of every mutex acquisition - including
// acquisitions that a change to the code has added or moved.
package main

import (
	"bytes"
	"fmt"
	"go/ast"
	"go/format"
	"go/parser"
	"go/token"
	"hash/fnv"
	"os"
	"path/filepath"
	"strings"
)

const hookPath = "github.com/gopacket/gopacket/verifhook"

// addressable reports whether taking the address of e is syntactically fine
// and free of side effects.
func addressable(e ast.Expr) bool {
	switch x := e.(type) {
	case *ast.Ident:
		return true
	case *ast.SelectorExpr:
		return addressable(x.X)
	case *ast.StarExpr:
		return addressable(x.X)
	case *ast.ParenExpr:
		return addressable(x.X)
	case *ast.IndexExpr:
		return addressable(x.X) && addressable(x.Index)
	case *ast.BasicLit:
		return true
	}
	return false
}

func siteOf(file string, line int) int {
	h := fnv.New32a()
	fmt.Fprintf(h, "%s:%d", filepath.Base(file), line)
	return 1000 + int(h.Sum32()%900000)
}

type rewriter struct {
	fset  *token.FileSet
	file  string
	count int
}

func (r *rewriter) list(stmts []ast.Stmt) []ast.Stmt {
	var out []ast.Stmt
	for _, s := range stmts {
		if es, ok := s.(*ast.ExprStmt); ok {
			if call, ok := es.X.(*ast.CallExpr); ok && len(call.Args) == 0 {
				if sel, ok := call.Fun.(*ast.SelectorExpr); ok && (sel.Sel.Name == "Lock" || sel.Sel.Name == "RLock") && addressable(sel.X) {
					write := "true"
					if sel.Sel.Name == "RLock" {
						write = "false"
					}
					line := r.fset.Position(s.Pos()).Line
					hook := &ast.ExprStmt{X: &ast.CallExpr{
						Fun: &ast.SelectorExpr{X: ast.NewIdent("verifhook"), Sel: ast.NewIdent("BeforeLock")},
						Args: []ast.Expr{
							&ast.UnaryExpr{Op: token.AND, X: &ast.ParenExpr{X: sel.X}},
							ast.NewIdent(write),
							&ast.BasicLit{Kind: token.INT, Value: fmt.Sprint(siteOf(r.file, line))},
						}}}
					out = append(out, hook)
					r.count++
				}
			}
		}
		out = append(out, s)
		// ... and a plain scheduling point right behind every statement
		// `x.Unlock()` / `x.RUnlock()`: "at every point where a lock is released"
		if es, ok := s.(*ast.ExprStmt); ok {
			if call, ok := es.X.(*ast.CallExpr); ok && len(call.Args) == 0 {
				if sel, ok := call.Fun.(*ast.SelectorExpr); ok && (sel.Sel.Name == "Unlock" || sel.Sel.Name == "RUnlock") {
					line := r.fset.Position(s.Pos()).Line
					out = append(out, &ast.ExprStmt{X: &ast.CallExpr{
						Fun: &ast.SelectorExpr{X: ast.NewIdent("verifhook"), Sel: ast.NewIdent("BeforeLock")},
						Args: []ast.Expr{ast.NewIdent("nil"), ast.NewIdent("false"),
							&ast.BasicLit{Kind: token.INT, Value: fmt.Sprint(siteOf(r.file, line) + 1000000)}}}})
					r.count++
				}
			}
		}
	}
	return out
}

func (r *rewriter) Visit(n ast.Node) ast.Visitor {
	switch x := n.(type) {
	case *ast.BlockStmt:
		x.List = r.list(x.List)
	case *ast.CaseClause:
		x.Body = r.list(x.Body)
	case *ast.CommClause:
		x.Body = r.list(x.Body)
	}
	return r
}

func instrumentFile(path string) (int, error) {
	fset := token.NewFileSet()
	f, err := parser.ParseFile(fset, path, nil, parser.ParseComments)
	if err != nil {
		return 0, err
	}
	r := &rewriter{fset: fset, file: path}
	ast.Walk(r, f)
	if r.count == 0 {
		return 0, nil
	}
	var buf bytes.Buffer
	if err := format.Node(&buf, fset, f); err != nil {
		return 0, err
	}
	// add the import right behind the package clause (a separate declaration
	// is always legal there)
	src := buf.String()
	idx := strings.Index(src, "\npackage ")
	if strings.HasPrefix(src, "package ") {
		idx = -1
	}
	eol := strings.Index(src[idx+1:], "\n") + idx + 1
	src = src[:eol+1] + "\nimport verifhook \"" + hookPath + "\"\n" + src[eol+1:]
	out, err := format.Source([]byte(src))
	if err != nil {
		return 0, fmt.Errorf("%s: %v", path, err)
	}
	return r.count, os.WriteFile(path, out, 0o644)
}

func main() {
	total := 0
	for _, dir := range os.Args[1:] {
		ents, err := os.ReadDir(dir)
		if err != nil {
			fmt.Fprintln(os.Stderr, "instrument:", err)
			os.Exit(2)
		}
		for _, e := range ents {
			n := e.Name()
			if e.IsDir() || !strings.HasSuffix(n, ".go") || strings.HasSuffix(n, "_test.go") || strings.HasPrefix(n, "verif_") {
				continue
			}
			c, err := instrumentFile(filepath.Join(dir, n))
			if err != nil {
				fmt.Fprintln(os.Stderr, "instrument:", err)
				os.Exit(2)
			}
			total += c
		}
	}
	fmt.Printf("instrumented %d lock sites\n", total)
}

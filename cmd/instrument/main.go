// Command instrument rewrites the non-test Go files of the given package
// directories (of a scratch copy of gopacket, never of /repo itself) so that
// every statement `x.Lock()` / `x.RLock()` is preceded by
//
//	verifhook.BeforeLock(&x, write, site)
//
// and every statement `x.Unlock()` / `x.RUnlock()` is followed by
// verifhook.BeforeLock(nil, false, site), a plain scheduling point,
//
// which gives the cooperative scheduler a scheduling point, with knowledge of
// the lock about to be taken, in front of every mutex acquisition - including
// acquisitions that a change to the code has added or moved.
package main

import (
	"bytes"
	"fmt"
	"go/ast"
	"go/format"
	"go/parser"
	"go/token"
	"hash/fnv"
	"os"
	"path/filepath"
	"strings"
)

const hookPath = "github.com/gopacket/gopacket/verifhook"

// addressable reports whether taking the address of e is syntactically fine
// and free of side effects.
func addressable(e ast.Expr) bool {
	switch x := e.(type) {
	case *ast.Ident:
		return true
	case *ast.SelectorExpr:
		return addressable(x.X)
	case *ast.StarExpr:
		return addressable(x.X)
	case *ast.ParenExpr:
		return addressable(x.X)
	case *ast.IndexExpr:
		return addressable(x.X) && addressable(x.Index)
	case *ast.BasicLit:
		return true
	}
	return false
}

func siteOf(file string, line int) int {
	h := fnv.New32a()
	fmt.Fprintf(h, "%s:%d", filepath.Base(file), line)
	return 1000 + int(h.Sum32()%900000)
}

type rewriter struct {
	fset  *token.FileSet
	file  string
	count int
	tmp   int
}

// atomicNames are the method and function names of sync/atomic. A statement
// that calls one of them (on whatever receiver: the instrumenter does not
// type-check, and a scheduling point too many is harmless) gets a plain
// scheduling point in front of it, so that the windows of lock-free code -
// between a Load and the CompareAndSwap that follows it - are explored too.
var atomicNames = map[string]bool{
	"CompareAndSwap": true, "Swap": true, "Load": true, "Store": true,
	"CompareAndSwapInt32": true, "CompareAndSwapInt64": true, "CompareAndSwapUint32": true, "CompareAndSwapUint64": true, "CompareAndSwapPointer": true, "CompareAndSwapUintptr": true,
	"LoadInt32": true, "LoadInt64": true, "LoadUint32": true, "LoadUint64": true, "LoadPointer": true, "LoadUintptr": true,
	"StoreInt32": true, "StoreInt64": true, "StoreUint32": true, "StoreUint64": true, "StorePointer": true, "StoreUintptr": true,
	"SwapInt32": true, "SwapInt64": true, "SwapUint32": true, "SwapUint64": true, "SwapPointer": true, "SwapUintptr": true,
	"AddInt32": true, "AddInt64": true, "AddUint32": true, "AddUint64": true, "AddUintptr": true,
}

// callsAtomic reports whether the statement itself (not a nested block or
// function literal, which are visited on their own) contains such a call.
func callsAtomic(s ast.Stmt) bool {
	found := false
	var exprs []ast.Expr
	switch x := s.(type) {
	case *ast.ExprStmt:
		exprs = []ast.Expr{x.X}
	case *ast.AssignStmt:
		exprs = append(append(exprs, x.Lhs...), x.Rhs...)
	case *ast.IfStmt:
		if x.Init != nil && callsAtomic(x.Init) {
			return true
		}
		exprs = []ast.Expr{x.Cond}
	case *ast.ForStmt:
		if x.Cond != nil {
			exprs = []ast.Expr{x.Cond}
		}
	case *ast.ReturnStmt:
		exprs = x.Results
	case *ast.IncDecStmt:
		exprs = []ast.Expr{x.X}
	case *ast.SwitchStmt:
		if x.Tag != nil {
			exprs = []ast.Expr{x.Tag}
		}
	}
	for _, e := range exprs {
		ast.Inspect(e, func(n ast.Node) bool {
			if _, ok := n.(*ast.FuncLit); ok {
				return false
			}
			if call, ok := n.(*ast.CallExpr); ok {
				if sel, ok := call.Fun.(*ast.SelectorExpr); ok && atomicNames[sel.Sel.Name] {
					found = true
				}
			}
			return !found
		})
	}
	return found
}

func isAtomicCall(e ast.Expr) (*ast.CallExpr, bool) {
	call, ok := e.(*ast.CallExpr)
	if !ok {
		return nil, false
	}
	sel, ok := call.Fun.(*ast.SelectorExpr)
	return call, ok && atomicNames[sel.Sel.Name]
}

func containsAtomic(e ast.Expr) bool {
	found := false
	ast.Inspect(e, func(n ast.Node) bool {
		if _, ok := n.(*ast.FuncLit); ok {
			return false
		}
		if x, ok := n.(ast.Expr); ok {
			if _, ok := isAtomicCall(x); ok {
				found = true
			}
		}
		return !found
	})
	return found
}

// hoist looks for the shape `X.CompareAndSwap(old, <expression with an atomic
// read>)` (or any atomic call with an atomic read among its arguments) at the
// top of a statement - the classic lock-free pop `head.CompareAndSwap(b,
// b.next.Load())`. The inner read is moved into a temporary in front of the
// statement, with a scheduling point between the read and the operation that
// consumes it: the window in which the value read can go stale (ABA). Only
// done where the receiver and the other arguments are plain variables and
// field selections, so that the order of evaluation does not matter.
func (r *rewriter) hoist(s ast.Stmt) (pre []ast.Stmt) {
	var top *ast.Expr
	switch x := s.(type) {
	case *ast.ExprStmt:
		top = &x.X
	case *ast.IfStmt:
		if x.Init != nil {
			return nil
		}
		top = &x.Cond
		if u, ok := x.Cond.(*ast.UnaryExpr); ok && u.Op == token.NOT {
			top = &u.X
		}
	case *ast.AssignStmt:
		if len(x.Rhs) != 1 {
			return nil
		}
		top = &x.Rhs[0]
	default:
		return nil
	}
	call, ok := isAtomicCall(*top)
	if !ok {
		return nil
	}
	if sel := call.Fun.(*ast.SelectorExpr); !addressable(sel.X) {
		return nil
	}
	for i, a := range call.Args {
		if !containsAtomic(a) {
			if !addressable(a) {
				return nil
			}
			continue
		}
		r.tmp++
		name := fmt.Sprintf("verifTmp%d", r.tmp)
		line := r.fset.Position(s.Pos()).Line
		pre = append(pre,
			&ast.AssignStmt{Lhs: []ast.Expr{ast.NewIdent(name)}, Tok: token.DEFINE, Rhs: []ast.Expr{a}},
			&ast.ExprStmt{X: &ast.CallExpr{
				Fun: &ast.SelectorExpr{X: ast.NewIdent("verifhook"), Sel: ast.NewIdent("BeforeLock")},
				Args: []ast.Expr{ast.NewIdent("nil"), ast.NewIdent("false"),
					&ast.BasicLit{Kind: token.INT, Value: fmt.Sprint(siteOf(r.file, line) + 4000000)}}}})
		call.Args[i] = ast.NewIdent(name)
		r.count++
	}
	return pre
}

func (r *rewriter) list(stmts []ast.Stmt) []ast.Stmt {
	var out []ast.Stmt
	for _, s := range stmts {
		if callsAtomic(s) {
			out = append(out, r.hoist(s)...)
			line := r.fset.Position(s.Pos()).Line
			out = append(out, &ast.ExprStmt{X: &ast.CallExpr{
				Fun: &ast.SelectorExpr{X: ast.NewIdent("verifhook"), Sel: ast.NewIdent("BeforeLock")},
				Args: []ast.Expr{ast.NewIdent("nil"), ast.NewIdent("false"),
					&ast.BasicLit{Kind: token.INT, Value: fmt.Sprint(siteOf(r.file, line) + 2000000)}}}})
			r.count++
			if fs, ok := s.(*ast.ForStmt); ok && fs.Body != nil {
				// a retry loop around a compare-and-swap: every round is a point
				fs.Body.List = append([]ast.Stmt{&ast.ExprStmt{X: &ast.CallExpr{
					Fun: &ast.SelectorExpr{X: ast.NewIdent("verifhook"), Sel: ast.NewIdent("BeforeLock")},
					Args: []ast.Expr{ast.NewIdent("nil"), ast.NewIdent("false"),
						&ast.BasicLit{Kind: token.INT, Value: fmt.Sprint(siteOf(r.file, line) + 3000000)}}}}}, fs.Body.List...)
			}
		}
		if es, ok := s.(*ast.ExprStmt); ok {
			if call, ok := es.X.(*ast.CallExpr); ok && len(call.Args) == 0 {
				if sel, ok := call.Fun.(*ast.SelectorExpr); ok && (sel.Sel.Name == "Lock" || sel.Sel.Name == "RLock") && addressable(sel.X) {
					write := "true"
					if sel.Sel.Name == "RLock" {
						write = "false"
					}
					line := r.fset.Position(s.Pos()).Line
					hook := &ast.ExprStmt{X: &ast.CallExpr{
						Fun: &ast.SelectorExpr{X: ast.NewIdent("verifhook"), Sel: ast.NewIdent("BeforeLock")},
						Args: []ast.Expr{
							&ast.UnaryExpr{Op: token.AND, X: &ast.ParenExpr{X: sel.X}},
							ast.NewIdent(write),
							&ast.BasicLit{Kind: token.INT, Value: fmt.Sprint(siteOf(r.file, line))},
						}}}
					out = append(out, hook)
					r.count++
				}
			}
		}
		out = append(out, s)
		// ... and a plain scheduling point right behind every statement
		// `x.Unlock()` / `x.RUnlock()`: "at every point where a lock is released"
		if es, ok := s.(*ast.ExprStmt); ok {
			if call, ok := es.X.(*ast.CallExpr); ok && len(call.Args) == 0 {
				if sel, ok := call.Fun.(*ast.SelectorExpr); ok && (sel.Sel.Name == "Unlock" || sel.Sel.Name == "RUnlock") {
					line := r.fset.Position(s.Pos()).Line
					out = append(out, &ast.ExprStmt{X: &ast.CallExpr{
						Fun: &ast.SelectorExpr{X: ast.NewIdent("verifhook"), Sel: ast.NewIdent("BeforeLock")},
						Args: []ast.Expr{ast.NewIdent("nil"), ast.NewIdent("false"),
							&ast.BasicLit{Kind: token.INT, Value: fmt.Sprint(siteOf(r.file, line) + 1000000)}}}})
					r.count++
				}
			}
		}
	}
	return out
}

func (r *rewriter) Visit(n ast.Node) ast.Visitor {
	switch x := n.(type) {
	case *ast.BlockStmt:
		x.List = r.list(x.List)
	case *ast.CaseClause:
		x.Body = r.list(x.Body)
	case *ast.CommClause:
		x.Body = r.list(x.Body)
	}
	return r
}

func instrumentFile(path string) (int, error) {
	fset := token.NewFileSet()
	f, err := parser.ParseFile(fset, path, nil, parser.ParseComments)
	if err != nil {
		return 0, err
	}
	r := &rewriter{fset: fset, file: path}
	ast.Walk(r, f)
	if r.count == 0 {
		return 0, nil
	}
	var buf bytes.Buffer
	if err := format.Node(&buf, fset, f); err != nil {
		return 0, err
	}
	// add the import right behind the package clause (a separate declaration
	// is always legal there)
	src := buf.String()
	idx := strings.Index(src, "\npackage ")
	if strings.HasPrefix(src, "package ") {
		idx = -1
	}
	eol := strings.Index(src[idx+1:], "\n") + idx + 1
	src = src[:eol+1] + "\nimport verifhook \"" + hookPath + "\"\n" + src[eol+1:]
	out, err := format.Source([]byte(src))
	if err != nil {
		return 0, fmt.Errorf("%s: %v", path, err)
	}
	return r.count, os.WriteFile(path, out, 0o644)
}

func main() {
	total := 0
	for _, dir := range os.Args[1:] {
		ents, err := os.ReadDir(dir)
		if err != nil {
			fmt.Fprintln(os.Stderr, "instrument:", err)
			os.Exit(2)
		}
		for _, e := range ents {
			n := e.Name()
			if e.IsDir() || !strings.HasSuffix(n, ".go") || strings.HasSuffix(n, "_test.go") || strings.HasPrefix(n, "verif_") {
				continue
			}
			c, err := instrumentFile(filepath.Join(dir, n))
			if err != nil {
				fmt.Fprintln(os.Stderr, "instrument:", err)
				os.Exit(2)
			}
			total += c
		}
	}
	fmt.Printf("instrumented %d lock sites\n", total)
}

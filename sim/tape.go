// Package sim is the common machinery of the deterministic simulations:
// the choice tape (one integer decides everything), the per-run context with
// its event log, fault counters and probes, the runner that turns panics into
// verdicts, the tape shrinker, and the child-process protocol.
package sim

// Tape is the only source of choices in a simulated run. In generate mode the
// values come from a private xoshiro256** generator and are recorded; in
// replay mode recorded values are returned (clamped) and 0 once exhausted.
// Generators are written so that 0 is always the simplest choice.
type Tape struct {
	s      [4]uint64
	Rec    []uint32
	in     []uint32
	replay bool
	pos    int
}

func splitmix(x *uint64) uint64 {
	*x += 0x9e3779b97f4a7c15
	z := *x
	z = (z ^ (z >> 30)) * 0xbf58476d1ce4e5b9
	z = (z ^ (z >> 27)) * 0x94d049bb133111eb
	return z ^ (z >> 31)
}

// Mix derives a sub-seed from a seed and labels.
func Mix(seed uint64, labels ...uint64) uint64 {
	x := seed
	r := splitmix(&x)
	for _, l := range labels {
		x ^= l * 0xd6e8feb86659fd93
		r ^= splitmix(&x)
	}
	return r
}

// HashString is FNV-1a 64.
func HashString(s string) uint64 {
	h := uint64(14695981039346656037)
	for i := 0; i < len(s); i++ {
		h ^= uint64(s[i])
		h *= 1099511628211
	}
	return h
}

// NewTape returns a generating tape.
func NewTape(seed uint64) *Tape {
	t := &Tape{}
	x := seed
	for i := range t.s {
		t.s[i] = splitmix(&x)
	}
	return t
}

// ReplayTape returns a tape replaying vals.
func ReplayTape(vals []uint32) *Tape {
	return &Tape{in: vals, replay: true}
}

func rotl(x uint64, k uint) uint64 { return (x << k) | (x >> (64 - k)) }

func (t *Tape) next() uint64 {
	s := &t.s
	r := rotl(s[1]*5, 7) * 9
	x := s[1] << 17
	s[2] ^= s[0]
	s[3] ^= s[1]
	s[1] ^= s[2]
	s[0] ^= s[3]
	s[2] ^= x
	s[3] = rotl(s[3], 45)
	return r
}

// Draw returns a value in [0,n). n<=1 returns 0 without consuming the tape.
func (t *Tape) Draw(n int) int {
	if n <= 1 {
		return 0
	}
	var v uint32
	if t.replay {
		if t.pos < len(t.in) {
			v = t.in[t.pos]
			if int64(v) >= int64(n) {
				v = uint32(n - 1)
			}
		}
		t.pos++
	} else {
		v = uint32((t.next() >> 11) % uint64(n))
	}
	t.Rec = append(t.Rec, v)
	return int(v)
}

// Chance is true with probability pm/1000; replaying 0 gives false.
func (t *Tape) Chance(pm int) bool {
	if pm <= 0 {
		return false
	}
	return t.Draw(1000) >= 1000-pm
}

// Range returns a value in [lo,hi].
func (t *Tape) Range(lo, hi int) int {
	if hi <= lo {
		return lo
	}
	return lo + t.Draw(hi-lo+1)
}

// Weighted picks an index with the given weights; index 0 is the simple one.
func (t *Tape) Weighted(w ...int) int {
	tot := 0
	for _, x := range w {
		tot += x
	}
	v := t.Draw(tot)
	for i, x := range w {
		if v < x {
			return i
		}
		v -= x
	}
	return len(w) - 1
}

// Used reports how many values were consumed.
func (t *Tape) Used() int { return len(t.Rec) }

// Shrink minimises vals while test keeps returning true. test is called at
// most budget times. Passes: truncate tail, delete spans, zero spans, lower
// single values; repeated to a fixed point.
func Shrink(vals []uint32, test func([]uint32) bool, budget int) []uint32 {
	cur := append([]uint32(nil), vals...)
	try := func(c []uint32) bool {
		if budget <= 0 {
			return false
		}
		budget--
		if test(c) {
			cur = append([]uint32(nil), c...)
			return true
		}
		return false
	}
	// strip trailing zeros for free (replay returns 0 past the end)
	strip := func() {
		for len(cur) > 0 && cur[len(cur)-1] == 0 {
			cur = cur[:len(cur)-1]
		}
	}
	strip()
	for changed := true; changed && budget > 0; {
		changed = false
		// truncate
		for n := len(cur) / 2; n >= 1 && budget > 0; n /= 2 {
			for len(cur) > n && try(cur[:len(cur)-n]) {
				changed = true
				strip()
			}
		}
		// delete spans
		for size := len(cur) / 2; size >= 1 && budget > 0; size /= 2 {
			for i := 0; i+size <= len(cur) && budget > 0; {
				c := append(append([]uint32(nil), cur[:i]...), cur[i+size:]...)
				if try(c) {
					changed = true
				} else {
					i += size
				}
			}
		}
		// zero spans
		for size := len(cur) / 2; size >= 1 && budget > 0; size /= 2 {
			for i := 0; i+size <= len(cur) && budget > 0; i += size {
				all0 := true
				for _, v := range cur[i : i+size] {
					if v != 0 {
						all0 = false
					}
				}
				if all0 {
					continue
				}
				c := append([]uint32(nil), cur...)
				for j := i; j < i+size; j++ {
					c[j] = 0
				}
				if try(c) {
					changed = true
				}
			}
		}
		// lower single values
		for i := 0; i < len(cur) && budget > 0; i++ {
			for cur[i] > 0 && budget > 0 {
				c := append([]uint32(nil), cur...)
				c[i] = cur[i] / 2
				if try(c) {
					changed = true
					continue
				}
				c[i] = cur[i] - 1
				if c[i] != cur[i]/2 && try(c) {
					changed = true
					continue
				}
				break
			}
		}
		strip()
	}
	return cur
}

package sim

import (
	"fmt"
	"os"
	"sort"
	"strings"
)

// RaceReport is one data race reported by the Go race detector.
type RaceReport struct {
	Sig     string
	Text    string
	Harness bool // both accesses are in harness code
}

// raceScanner reads new reports from the detector's log file
// (GORACE=log_path=<path> writes to <path>.<pid>).
type raceScanner struct {
	path string
	off  int64
}

func newRaceScanner(logPath string) *raceScanner {
	return &raceScanner{path: fmt.Sprintf("%s.%d", logPath, os.Getpid())}
}

func innermost(stack []string) (fn string, harness bool) {
	// stack: function lines of one access, innermost first
	for _, f := range stack {
		if strings.Contains(f, gopkt) {
			return strings.TrimPrefix(strings.TrimPrefix(f, gopkt+"/"), gopkt+"."), false
		}
	}
	for _, f := range stack {
		if strings.HasPrefix(f, "verif/") {
			return f, true
		}
	}
	if len(stack) > 0 {
		return stack[0], false
	}
	return "?", false
}

// Scan returns the reports appended to the log since the last call.
func (r *raceScanner) Scan() []RaceReport {
	b, err := os.ReadFile(r.path)
	if err != nil || int64(len(b)) <= r.off {
		return nil
	}
	text := string(b[r.off:])
	r.off = int64(len(b))
	var out []RaceReport
	for _, rep := range strings.Split(text, "==================") {
		if !strings.Contains(rep, "DATA RACE") {
			continue
		}
		// the two access stacks are the first two paragraphs that start with
		// "Read at", "Write at", "Previous read at", "Previous write at"
		var stacks [][]string
		var cur []string
		in := false
		for _, line := range strings.Split(rep, "\n") {
			t := strings.TrimSpace(line)
			switch {
			case strings.HasPrefix(t, "Read at") || strings.HasPrefix(t, "Write at") || strings.HasPrefix(t, "Previous read at") || strings.HasPrefix(t, "Previous write at") || strings.HasPrefix(t, "Atomic") || strings.HasPrefix(t, "Previous atomic"):
				if in {
					stacks = append(stacks, cur)
				}
				cur, in = nil, true
			case t == "" || strings.HasPrefix(t, "Goroutine "):
				if in {
					stacks = append(stacks, cur)
					cur, in = nil, false
				}
			case in && !strings.HasPrefix(t, "/") && !strings.HasPrefix(t, "<"):
				// a function line: "pkg.(*T).method()" possibly with arguments
				if i := strings.Index(t, "("); i > 0 && strings.HasSuffix(t, ")") {
					// cut the trailing "()" argument list, keep receiver parentheses
					if j := strings.LastIndex(t, "("); j > 0 {
						t = t[:j]
					}
				}
				cur = append(cur, t)
			}
		}
		if in {
			stacks = append(stacks, cur)
		}
		if len(stacks) < 2 {
			out = append(out, RaceReport{Sig: "no-race/race@unparsed", Text: rep})
			continue
		}
		a, ha := innermost(stacks[0])
		c, hc := innermost(stacks[1])
		pair := []string{a, c}
		sort.Strings(pair)
		out = append(out, RaceReport{Sig: "no-race/race@" + pair[0] + " vs " + pair[1], Text: strings.TrimSpace(rep), Harness: ha && hc})
	}
	return out
}

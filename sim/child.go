package sim

import (
	"encoding/binary"
	"encoding/json"
	"fmt"
	"os"
	"runtime"
	"runtime/debug"
	"runtime/pprof"
	"sort"
	"strings"
	"syscall"
	"time"
)

// Spec is what the parent passes to a child process in $VERIF_CHILD.
type Spec struct {
	Sim       string   `json:"sim"`
	Prop      string   `json:"prop"`
	Mode      string   `json:"mode"` // explore | replay
	Seed      uint64   `json:"seed"`
	Idx       int      `json:"idx"`
	Stride    int      `json:"stride"`
	MaxRuns   int      `json:"max_runs"`
	BudgetMs  int64    `json:"budget_ms"`
	Tier      string   `json:"tier"`
	Out       string   `json:"out"`
	Tape      []uint32 `json:"tape,omitempty"`
	MaxShrink int      `json:"max_shrink"`
	Race      bool     `json:"race"`
	Procs     int      `json:"procs"`
	RaceLog   string   `json:"race_log,omitempty"`
	// MemLimitMB, when > 0, is a hard address-space limit (RLIMIT_AS) the
	// child puts on itself: an allocation the harness cannot afford then ends
	// the process with "fatal error: out of memory", which the parent
	// attributes to the run in progress (see CurFile) and reports as a verdict.
	MemLimitMB int `json:"mem_limit_mb,omitempty"`
}

// CurFile is the path of the 8-byte file, mapped shared by the child, that
// always holds the index of the run in progress: it survives a fatal error
// or a kill, so the parent can re-execute exactly that run.
func CurFile(out string) string { return out + ".cur" }

func mapCur(path string) []byte {
	fh, err := os.OpenFile(path, os.O_RDWR|os.O_CREATE|os.O_TRUNC, 0o644)
	if err != nil {
		return make([]byte, 8)
	}
	defer fh.Close()
	if err := fh.Truncate(8); err != nil {
		return make([]byte, 8)
	}
	m, err := syscall.Mmap(int(fh.Fd()), 0, 8, syscall.PROT_READ|syscall.PROT_WRITE, syscall.MAP_SHARED)
	if err != nil {
		return make([]byte, 8)
	}
	return m
}

// Found is one violation found by a child, already minimised.
type Found struct {
	Sig     string    `json:"sig"`
	V       Violation `json:"violation"`
	Seed    uint64    `json:"seed"`
	Run     int       `json:"run"`
	Sim     string    `json:"sim"`
	Tier    string    `json:"tier"`
	Race    bool      `json:"race,omitempty"`
	OrigLen int       `json:"orig_tape_len"`
	Tape    []uint32  `json:"tape"`
	Log     []string  `json:"log"`
	LogFP   string    `json:"log_fp"`
	Count   int       `json:"count"`
	Shrinks int       `json:"shrink_runs"`
	BySeed  bool      `json:"by_seed,omitempty"`
}

// Out is what a child writes when it finishes.
type Out struct {
	Sim       string           `json:"sim"`
	Runs      int              `json:"runs"`
	Events    int64            `json:"events"`
	NonTriv   int              `json:"nontrivial_runs"`
	Faults    map[string]int   `json:"faults"`
	Probes    map[string]int   `json:"probes"`
	SimTimeNs int64            `json:"sim_time_ns"`
	Samples   [][]string       `json:"samples"`
	Found     []Found          `json:"found"`
	Bug       string           `json:"bug,omitempty"`
	WallMs    int64            `json:"wall_ms"`
	TapeVals  int64            `json:"tape_values"`
	Extra     map[string]int64 `json:"extra,omitempty"`
}

func writeSet(path string, m map[uint64]struct{}) error {
	ks := make([]uint64, 0, len(m))
	for k := range m {
		ks = append(ks, k)
	}
	sort.Slice(ks, func(i, j int) bool { return ks[i] < ks[j] })
	b := make([]byte, 8*len(ks))
	for i, k := range ks {
		binary.LittleEndian.PutUint64(b[8*i:], k)
	}
	return os.WriteFile(path, b, 0o644)
}

// ReadSetInto merges a set file into m.
func ReadSetInto(path string, m map[uint64]struct{}) {
	b, err := os.ReadFile(path)
	if err != nil {
		return
	}
	for i := 0; i+8 <= len(b); i += 8 {
		m[binary.LittleEndian.Uint64(b[i:])] = struct{}{}
	}
}

// ChildMain runs the child protocol if $VERIF_CHILD is set. It returns false
// when the variable is absent (ordinary `go test`).
func ChildMain(sims map[string]SimFunc) bool {
	raw := os.Getenv("VERIF_CHILD")
	if raw == "" {
		return false
	}
	var sp Spec
	if err := json.Unmarshal([]byte(raw), &sp); err != nil {
		fmt.Fprintln(os.Stderr, "bad VERIF_CHILD:", err)
		os.Exit(2)
	}
	f := sims[sp.Sim]
	if f == nil {
		fmt.Fprintln(os.Stderr, "unknown sim", sp.Sim)
		os.Exit(2)
	}
	if sp.Procs <= 0 {
		sp.Procs = 1
	}
	runtime.GOMAXPROCS(sp.Procs)
	debug.SetGCPercent(400)
	debug.SetMemoryLimit(3 << 30) // soft: collect harder instead of growing without bound
	if sp.MemLimitMB > 0 {
		l := syscall.Rlimit{Cur: uint64(sp.MemLimitMB) << 20, Max: uint64(sp.MemLimitMB) << 20}
		if err := syscall.Setrlimit(syscall.RLIMIT_AS, &l); err != nil {
			fmt.Fprintln(os.Stderr, "setrlimit:", err)
			os.Exit(2)
		}
	}
	cur := mapCur(CurFile(sp.Out))
	out := &Out{Sim: sp.Sim, Faults: map[string]int{}, Probes: map[string]int{}, Extra: map[string]int64{}}
	start := time.Now()
	finish := func(code int) {
		if mp := os.Getenv("VERIF_MEMPROF"); mp != "" {
			fh, _ := os.Create(mp)
			pprof.Lookup("allocs").WriteTo(fh, 0)
			fh.Close()
		}
		out.WallMs = time.Since(start).Milliseconds()
		b, _ := json.Marshal(out)
		if err := os.WriteFile(sp.Out, b, 0o644); err != nil {
			fmt.Fprintln(os.Stderr, "write out:", err)
			os.Exit(2)
		}
		os.Exit(code)
	}
	if sp.Mode == "replay" {
		if mp := os.Getenv("VERIF_MEMPROF"); mp != "" {
			runtime.MemProfileRate = 1
			defer func() {
				fh, _ := os.Create(mp)
				pprof.Lookup("allocs").WriteTo(fh, 0)
				fh.Close()
			}()
		}
		c := RunOne(f, ReplayTape(sp.Tape), sp.Tier, true)
		out.Runs = 1
		if c.Bug != "" {
			out.Bug = c.Bug
			finish(2)
		}
		out.Samples = [][]string{c.Lines}
		for _, v := range c.All() {
			out.Found = append(out.Found, Found{Sig: v.Sig(), V: *v, Sim: sp.Sim, Tier: sp.Tier, Tape: c.Rec, Log: c.Lines, LogFP: fmt.Sprintf("%016x", c.Fingerprint()), Count: 1})
		}
		if sp.RaceLog != "" {
			for _, rr := range newRaceScanner(sp.RaceLog).Scan() {
				out.Found = append(out.Found, Found{Sig: rr.Sig, V: Violation{Clause: "no-race", Kind: "race", Where: strings.TrimPrefix(rr.Sig, "no-race/race@"), Detail: rr.Text}, Sim: sp.Sim, Tier: sp.Tier, Race: true, Tape: c.Rec, Log: c.Lines, LogFP: fmt.Sprintf("%016x", c.Fingerprint()), Count: 1})
			}
		}
		finish(0)
	}
	if sp.Mode == "fplist" {
		// determinism self-test: one line per run, fingerprint and verdict
		var lines []byte
		for run := sp.Idx; run < sp.MaxRuns; run += sp.Stride {
			c := RunOne(f, NewTape(Mix(sp.Seed, HashString(sp.Sim), uint64(run))), sp.Tier, false)
			sig := "ok"
			if c.Bug != "" {
				sig = "BUG " + c.Bug
			} else if c.V != nil {
				sig = c.V.Sig()
			}
			for _, v := range c.Softs {
				sig += " +" + v.Sig()
			}
			lines = append(lines, fmt.Sprintf("%d %016x %d %s\n", run, c.Fingerprint(), len(c.Rec), sig)...)
			out.Runs++
		}
		os.WriteFile(sp.Out+".fplist", lines, 0o644)
		finish(0)
	}
	var rs *raceScanner
	if sp.RaceLog != "" {
		rs = newRaceScanner(sp.RaceLog)
	}
	fps := map[uint64]struct{}{}
	states := map[uint64]struct{}{}
	seen := map[string]int{} // sig -> index in out.Found
	deadline := start.Add(time.Duration(sp.BudgetMs) * time.Millisecond)
	simh := HashString(sp.Sim)
	for run := sp.Idx; sp.MaxRuns <= 0 || run < sp.MaxRuns; run += sp.Stride {
		if sp.BudgetMs > 0 && out.Runs&7 == 0 && time.Now().After(deadline) {
			break
		}
		tseed := Mix(sp.Seed, simh, uint64(run))
		binary.LittleEndian.PutUint64(cur, uint64(run)+1)
		keep := out.Runs < 2
		t0 := time.Now()
		c := RunOne(f, NewTape(tseed), sp.Tier, keep)
		if d := time.Since(t0).Milliseconds(); d > out.Extra["max_run_ms"] {
			out.Extra["max_run_ms"], out.Extra["max_run_index"] = d, int64(run)
		}
		out.Runs++
		out.Events += int64(c.Events)
		out.TapeVals += int64(len(c.Rec))
		if c.Bug != "" {
			out.Bug = fmt.Sprintf("run %d (seed %d): %s", run, sp.Seed, c.Bug)
			finish(2)
		}
		for k, v := range c.Faults {
			out.Faults[k] += v
		}
		for k, v := range c.Probes {
			out.Probes[k] += v
		}
		out.SimTimeNs += int64(c.SimTime)
		if c.NonTrivialRun() {
			out.NonTriv++
			if len(fps) < 4_000_000 {
				fps[c.Fingerprint()] = struct{}{}
			}
		}
		if len(states) < 4_000_000 {
			for s := range c.States {
				states[s] = struct{}{}
			}
		}
		if keep {
			l := c.Lines
			if len(l) > 60 {
				l = append(append([]string{}, l[:40]...), fmt.Sprintf("… %d more events …", len(l)-40))
			}
			out.Samples = append(out.Samples, append([]string{fmt.Sprintf("run=%d tape_seed=%d", run, tseed)}, l...))
		}
		if rs != nil {
			// the detector reports each distinct race once per process: attribute
			// new reports to the run that was in progress (not minimised here)
			for _, rr := range rs.Scan() {
				if rr.Harness {
					out.Bug = fmt.Sprintf("run %d: data race inside the harness:\n%s", run, rr.Text)
					finish(2)
				}
				if i, ok := seen[rr.Sig]; ok {
					out.Found[i].Count++
					continue
				}
				seen[rr.Sig] = len(out.Found)
				out.Found = append(out.Found, Found{Sig: rr.Sig, V: Violation{Clause: "no-race", Kind: "race", Where: strings.TrimPrefix(rr.Sig, "no-race/race@"), Detail: rr.Text},
					Seed: sp.Seed, Run: run, Sim: sp.Sim, Tier: sp.Tier, Race: true, OrigLen: len(c.Rec), Tape: c.Rec, Log: c.Lines, LogFP: fmt.Sprintf("%016x", c.Fingerprint()), Count: 1})
			}
		}
		for _, viol := range c.All() {
			sig := viol.Sig()
			if i, ok := seen[sig]; ok {
				out.Found[i].Count++
				continue
			}
			if len(out.Found) >= 6 {
				continue
			}
			// minimise in-process: the run is a pure function of the tape
			n := 0
			shrinkEnd := time.Now().Add(20 * time.Second)
			expired := false
			min := Shrink(c.Rec, func(v []uint32) bool {
				n++
				if expired || time.Now().After(shrinkEnd) {
					expired = true
					return false
				}
				r := RunOne(f, ReplayTape(v), sp.Tier, false)
				return r.Bug == "" && r.Has(sig) != nil
			}, sp.MaxShrink)
			// the minimised tape must reproduce; a violation that depends on a
			// choice the simulator does not own (Go's select among ready cases)
			// may need several executions, or only the original tape shows it
			var r *Ctx
			var rv *Violation
			for _, tp := range [][]uint32{min, c.Rec} {
				for try := 0; try < 6 && rv == nil; try++ {
					r = RunOne(f, ReplayTape(tp), sp.Tier, true)
					rv = r.Has(sig)
				}
				if rv != nil {
					min = tp
					break
				}
			}
			if rv == nil {
				r, rv, min = c, viol, c.Rec
				cp := *viol
				cp.Detail += "\n(NOT reproduced in 12 re-executions of its tape: the outcome depends on a choice the simulator does not own)"
				rv = &cp
			}
			seen[sig] = len(out.Found)
			out.Found = append(out.Found, Found{Sig: sig, V: *rv, Seed: sp.Seed, Run: run, Sim: sp.Sim, Tier: sp.Tier, Race: sp.Race,
				OrigLen: len(c.Rec), Tape: min, Log: r.Lines, LogFP: fmt.Sprintf("%016x", r.Fingerprint()), Count: 1, Shrinks: n})
		}
		if c.Poisoned {
			break // goroutines of that run are still parked: start no further run in this process
		}
	}
	if err := writeSet(sp.Out+".fp", fps); err != nil {
		out.Bug = err.Error()
		finish(2)
	}
	writeSet(sp.Out+".st", states)
	finish(0)
	return true
}

package sim

import (
	"fmt"
	"runtime"
	"strings"
	"time"
)

// Violation is a property violation found in one run.
type Violation struct {
	Clause string `json:"clause"` // which clause of the property
	Kind   string `json:"kind"`   // e.g. panic, mismatch, leak, deadlock, race
	Where  string `json:"where"`  // stable location (function / message), no seeds or addresses
	Detail string `json:"detail"` // free text for the reader, not part of the signature
}

// Sig is the signature used for classification and for "same violation"
// during shrinking.
func (v *Violation) Sig() string { return v.Clause + "/" + v.Kind + "@" + v.Where }

type failSentinel struct{}
type bugSentinel struct{ msg string }

// Ctx is handed to a simulation for one run.
type Ctx struct {
	*Tape
	Tier    string
	KeepLog bool
	Lines   []string
	fp      uint64
	Events  int
	Faults  map[string]int
	Probes  map[string]int
	States  map[uint64]struct{}
	SimTime time.Duration
	nontriv bool
	V       *Violation
	Softs   []*Violation // known-defect style findings that do not end the run
	Bug     string
	// Poisoned: the run left goroutines behind (deadlock verdict); the process
	// must not be used for further runs
	Poisoned bool
	Opaque   any // engine-specific
}

func newCtx(t *Tape, tier string, keep bool) *Ctx {
	return &Ctx{Tape: t, Tier: tier, KeepLog: keep, fp: 14695981039346656037,
		Faults: map[string]int{}, Probes: map[string]int{}, States: map[uint64]struct{}{}}
}

// Thorough reports whether the thorough tier is running.
func (c *Ctx) Thorough() bool { return c.Tier == "thorough" }

func (c *Ctx) mixfp(x uint64) {
	c.fp ^= x
	c.fp *= 1099511628211
	c.fp ^= c.fp >> 29
}

// Ev records one event of the run: it always enters the fingerprint and is
// formatted only when the log is kept. It never draws from the tape.
func (c *Ctx) Ev(kind string, vals ...int64) {
	c.Events++
	c.mixfp(HashString(kind))
	for _, v := range vals {
		c.mixfp(uint64(v))
	}
	if c.KeepLog {
		var b strings.Builder
		fmt.Fprintf(&b, "#%d %s", c.Events, kind)
		for _, v := range vals {
			fmt.Fprintf(&b, " %d", v)
		}
		c.Lines = append(c.Lines, b.String())
	}
}

// Evs records an event with a string payload.
func (c *Ctx) Evs(kind string, s string) {
	c.Events++
	c.mixfp(HashString(kind))
	c.mixfp(HashString(s))
	if c.KeepLog {
		c.Lines = append(c.Lines, fmt.Sprintf("#%d %s %s", c.Events, kind, s))
	}
}

// Fault counts a fault that actually fired and marks the run non-trivial.
func (c *Ctx) Fault(kind string) { c.Faults[kind]++; c.nontriv = true }

// Probe counts a "rare condition reached" probe.
func (c *Ctx) Probe(name string) { c.Probes[name]++ }

// NonTrivial marks the run non-trivial without a fault (e.g. a pre-emption).
func (c *Ctx) NonTrivial() { c.nontriv = true }

// State records an abstract state hash.
func (c *Ctx) State(h uint64) {
	if len(c.States) < 4096 {
		c.States[h] = struct{}{}
	}
}

// Advance adds simulated time.
func (c *Ctx) Advance(d time.Duration) { c.SimTime += d }

// Fail records a violation and aborts the run.
func (c *Ctx) Fail(clause, kind, where, format string, a ...any) {
	c.Record(clause, kind, where, format, a...)
	panic(failSentinel{})
}

// Abort ends the run with the violation already recorded in c.V.
func (c *Ctx) Abort() { panic(failSentinel{}) }

// Record records a violation (first one wins) without aborting.
func (c *Ctx) Record(clause, kind, where, format string, a ...any) {
	if c.V == nil {
		c.V = &Violation{Clause: clause, Kind: kind, Where: where, Detail: fmt.Sprintf(format, a...)}
	}
}

// Soft records a violation without ending the run and without masking a
// later, different one: used where a defect is already on record and the rest
// of the run should still be checked (with the expectation adjusted).
func (c *Ctx) Soft(clause, kind, where, format string, a ...any) {
	v := &Violation{Clause: clause, Kind: kind, Where: where, Detail: fmt.Sprintf(format, a...)}
	for _, o := range c.Softs {
		if o.Sig() == v.Sig() {
			return
		}
	}
	c.Softs = append(c.Softs, v)
}

// All returns every violation of the run, hard one first.
func (c *Ctx) All() []*Violation {
	var l []*Violation
	if c.V != nil {
		l = append(l, c.V)
	}
	return append(l, c.Softs...)
}

// Has reports whether the run produced a violation with this signature.
func (c *Ctx) Has(sig string) *Violation {
	for _, v := range c.All() {
		if v.Sig() == sig {
			return v
		}
	}
	return nil
}

// Bugf reports trouble in the harness itself (exit 2, never a violation).
func (c *Ctx) Bugf(format string, a ...any) {
	panic(bugSentinel{fmt.Sprintf(format, a...)})
}

// SimFunc is one simulated run: a pure function of the tape.
type SimFunc func(c *Ctx)

const gopkt = "github.com/gopacket/gopacket"

// PanicWhere classifies a recovered panic by walking the stack of the
// panicking goroutine (call from a deferred function). It returns the
// innermost gopacket function, or "" with harness=true when the innermost
// non-runtime frame that is either gopacket or harness code is harness code.
func PanicWhere() (where string, harness bool) {
	pcs := make([]uintptr, 64)
	n := runtime.Callers(2, pcs)
	frames := runtime.CallersFrames(pcs[:n])
	seenPanic := false
	for {
		f, more := frames.Next()
		fn := f.Function
		if fn == "runtime.gopanic" || fn == "runtime.panicmem" || fn == "runtime.sigpanic" || strings.HasPrefix(fn, "runtime.panic") || strings.HasPrefix(fn, "runtime.goPanic") {
			seenPanic = true
		} else if seenPanic && !strings.HasPrefix(fn, "runtime.") {
			if strings.HasPrefix(fn, gopkt) {
				return strings.TrimPrefix(strings.TrimPrefix(fn, gopkt+"/"), gopkt+"."), false
			}
			if strings.HasPrefix(fn, "verif/") {
				return fn, true
			}
		}
		if !more {
			break
		}
	}
	return "unknown", false
}

// PanicMsg renders a panic value without addresses.
func PanicMsg(r any) string {
	s := fmt.Sprint(r)
	if e, ok := r.(error); ok {
		s = e.Error()
	}
	if i := strings.Index(s, "0x"); i >= 0 {
		s = s[:i] + "0x…"
	}
	// runtime index/slice messages contain the concrete numbers: generalise
	if strings.HasPrefix(s, "runtime error: ") {
		out := []byte{}
		for i := 0; i < len(s); i++ {
			ch := s[i]
			if ch >= '0' && ch <= '9' {
				if len(out) == 0 || out[len(out)-1] != 'N' {
					out = append(out, 'N')
				}
				continue
			}
			out = append(out, ch)
		}
		s = string(out)
	}
	if len(s) > 120 {
		s = s[:120]
	}
	return s
}

// RunOne executes f on the tape and converts panics into verdicts.
func RunOne(f SimFunc, t *Tape, tier string, keep bool) (c *Ctx) {
	c = newCtx(t, tier, keep)
	defer func() {
		r := recover()
		if r == nil {
			return
		}
		switch x := r.(type) {
		case failSentinel:
		case bugSentinel:
			c.Bug = x.msg
		default:
			where, harness := PanicWhere()
			if harness {
				buf := make([]byte, 8192)
				buf = buf[:runtime.Stack(buf, false)]
				c.Bug = fmt.Sprintf("harness panic: %v at %s\n%s", r, where, buf)
				return
			}
			if c.V == nil {
				c.V = &Violation{Clause: "no-panic", Kind: "panic", Where: fmt.Sprintf("%q in %s", PanicMsg(r), where), Detail: fmt.Sprint(r)}
			}
		}
	}()
	f(c)
	return c
}

// Fingerprint is the hash of the run's event log.
func (c *Ctx) Fingerprint() uint64 { return c.fp }

// NonTrivialRun reports whether a fault fired or a pre-emption happened.
func (c *Ctx) NonTrivialRun() bool { return c.nontriv }

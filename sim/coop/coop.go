// Package coop is engine A: a cooperative scheduler for real goroutines.
// Workers are real goroutines running real gopacket code; exactly one runs at
// any moment. A worker parks at every yield point (API call boundaries, stream
// callbacks, and a hook in front of every lock acquisition of the code under
// test) and the controller picks, from the tape, who proceeds.
//
// The hand-off between controller and workers is hidden from the race
// detector in -race builds (see handoff_race.go), so that two workers touching
// the same word without a real lock between them are reported although they
// never ran at the same time. For that reason every function here that touches
// state shared between goroutines is marked //go:norace, events are recorded
// per worker and merged only after a visible join at the end of the run.
package coop

import (
	"fmt"
	"os"
	"sort"
	"sync"
	"unsafe"

	"verif/sim"
)

// Event is one record of a worker, stamped with the controller step at which
// the worker was running.
type Event struct {
	Step, Idx int
	W         int
	Kind      string
	A, B, C   int64
	S         string
	Data      []byte
}

// W is a worker.
type W struct {
	ID       int
	Name     string
	s        *Sched
	h        handoff
	finished bool
	blocked  bool    // last TryLock failed
	lockKey  uintptr // which lock
	lockW    bool    // ... for writing
	site     int
	events   []Event
	step     int
	idx      int
	panicV   *sim.Violation
	bug      string
	lastRun  int // controller step at which it last ran
	// justHooked: the lock this worker has just passed a lock hook for, so
	// that a hand-placed hook and the instrumented one at the same site
	// yield once, not twice
	justHooked uintptr
	sleepUntil int // delay injection: not schedulable before this controller step
	// Quiet: the worker passes its scheduling points without parking (a long
	// stretch that is about the history of calls, not about their interleaving)
	Quiet bool
}

// Sched is the controller.
type Sched struct {
	C        *sim.Ctx
	workers  []*W
	cur      *W
	step     int
	preempt  int // per-mille probability of switching away at a yield point
	Switches int
	Sites    map[int]int
	wg       sync.WaitGroup
	trace    uint64
	dead     bool
	MaxSteps int
	// PCT-style scheduling (half of the runs): workers have random priorities,
	// the highest-priority enabled worker always runs, and at a few random
	// steps the running worker drops below everybody else. Reaches "A stalls
	// right here while B and C complete whole operations" orderings that
	// independent coin flips at every yield point almost never produce.
	pct     bool
	pctDeep int   // number of priority change points
	pctSpan int   // steps over which the change points are spread
	prio    []int // per worker
	change  map[int]bool
	low     int
	// delay injection (a quarter of the runs): when a worker parks, with a
	// small probability it is put to sleep for 5-60 controller steps while the
	// others go on - long stalls at one point, which independent coin flips at
	// every yield point make exponentially unlikely
	stallPm int
}

// New creates a scheduler; the pre-emption rate is a per-run knob.
func New(c *sim.Ctx) *Sched {
	s := &Sched{C: c, Sites: map[int]int{}, MaxSteps: 4000}
	s.preempt = []int{30, 150, 400, 800}[c.Weighted(2, 3, 3, 1)]
	if c.Chance(100) && os.Getenv("VERIF_NOSTALL") == "" {
		s.stallPm = []int{15, 40, 100}[c.Draw(3)]
	}
	if c.Chance(100) && os.Getenv("VERIF_NOPCT") == "" {
		s.pct = true
		s.pctDeep = c.Draw(4)
		s.pctSpan = 30 << uint(c.Draw(4))
	}
	return s
}

// Go registers a worker. It starts parked.
func (s *Sched) Go(name string, f func(w *W)) *W {
	w := &W{ID: len(s.workers), Name: name, s: s}
	w.h = newHandoff()
	s.workers = append(s.workers, w)
	s.wg.Add(1)
	go w.main(f)
	return w
}

//go:norace
func (w *W) main(f func(w *W)) {
	defer w.s.wg.Done()
	defer func() {
		if r := recover(); r != nil {
			where, harness := sim.PanicWhere()
			if _, ok := r.(workerAbort); ok {
				// controller told us to stop
			} else if harness {
				w.bug = fmt.Sprintf("worker %s: harness panic %v at %s", w.Name, r, where)
			} else {
				w.panicV = &sim.Violation{Clause: "no-panic", Kind: "panic", Where: fmt.Sprintf("%q in %s", sim.PanicMsg(r), where), Detail: fmt.Sprintf("worker %s: %v", w.Name, r)}
			}
		}
		w.finished = true
		w.h.toController(msgFinished, 0)
	}()
	w.waitRelease() // parked until first scheduled
	f(w)
}

type workerAbort struct{}

//go:norace
func (w *W) waitRelease() {
	kind, v := w.h.fromController()
	if kind == msgAbort {
		panic(workerAbort{})
	}
	w.step = int(v)
	w.idx = 0
}

// Yield is a scheduling point without a lock.
//
//go:norace
func (w *W) Yield(site int) {
	if w.Quiet {
		return
	}
	w.site = site
	w.blocked = false
	w.justHooked = 0
	w.h.toController(msgParked, int64(site))
	w.waitRelease()
}

// Rec records an event of this worker (only its own goroutine touches the log).
//
//go:norace
func (w *W) Rec(kind string, a, b, c int64, s string, data []byte) {
	var d []byte
	if data != nil {
		d = append([]byte(nil), data...)
	}
	w.events = append(w.events, Event{Step: w.step, Idx: w.idx, W: w.ID, Kind: kind, A: a, B: b, C: c, S: s, Data: d})
	w.idx++
}

// Current returns the worker that is running now (for callbacks and hooks
// called from gopacket code).
//
//go:norace
func (s *Sched) Current() *W { return s.cur }

// LockHook is installed as the package's VerifYield: a scheduling point in
// front of a lock acquisition. The released worker tries the lock; if it is
// taken it reports itself blocked and parks again, so the controller never
// lets a worker run into a real blocking Lock.
//
//go:norace
func (s *Sched) LockHook(site int, m *sync.Mutex, rw *sync.RWMutex, write bool) {
	w := s.cur
	if w == nil || w.Quiet {
		return // single-threaded phase (setup, final flush), or a stretch without scheduling points
	}
	w.site = site
	w.blocked = false
	w.justHooked = 0
	for {
		b := int64(0)
		if w.blocked {
			b = 1
		}
		w.h.toController(msgParked, int64(site)|b<<32)
		w.waitRelease()
		ok := true
		switch {
		case m != nil:
			w.lockKey, w.lockW = uintptr(unsafe.Pointer(m)), true
			if ok = m.TryLock(); ok {
				m.Unlock()
			}
		case rw != nil && write:
			w.lockKey, w.lockW = uintptr(unsafe.Pointer(rw)), true
			if ok = rw.TryLock(); ok {
				rw.Unlock()
			}
		case rw != nil:
			w.lockKey, w.lockW = uintptr(unsafe.Pointer(rw)), false
			if ok = rw.TryRLock(); ok {
				rw.RUnlock()
			}
			// sync.RWMutex prefers writers: a Lock call that is waiting keeps
			// new readers out. A writer here "waits" when its last attempt on
			// this lock failed and it has not got through since. (Without this
			// a read lock taken twice by one goroutine with a writer arriving
			// in between - a deadlock in a real run - would pass unnoticed.)
			for _, o := range s.workers {
				if o != w && !o.finished && o.blocked && o.lockW && o.lockKey == w.lockKey {
					ok = false
				}
			}
		}
		if ok {
			w.blocked = false
			switch {
			case m != nil:
				w.justHooked = uintptr(unsafe.Pointer(m))
			case rw != nil:
				w.justHooked = uintptr(unsafe.Pointer(rw))
			}
			return
		}
		w.blocked = true
	}
}

// AnyLockHook is installed as verifhook.Hook in builds against the
// instrumented copy of the repository, where every `x.Lock()` / `x.RLock()`
// statement is preceded by a call to it with &x. Locks of a kind it does not
// know (embedded mutexes, interfaces) get no scheduling point, which is safe.
//
//go:norace
func (s *Sched) AnyLockHook(l any, write bool, site int) {
	var m *sync.Mutex
	var rw *sync.RWMutex
	switch x := l.(type) {
	case *sync.Mutex:
		m = x
	case **sync.Mutex:
		m = *x
	case *sync.RWMutex:
		rw = x
	case **sync.RWMutex:
		rw = *x
	}
	if l == nil {
		// a lock has just been released: plain scheduling point
		if w := s.cur; w != nil {
			w.Yield(site)
		}
		return
	}
	if m == nil && rw == nil {
		return
	}
	if w := s.cur; w != nil {
		key := uintptr(unsafe.Pointer(m))
		if m == nil {
			key = uintptr(unsafe.Pointer(rw))
		}
		if w.justHooked == key {
			w.justHooked = 0 // the hand-placed hook in front of this Lock has yielded already
			return
		}
	}
	s.LockHook(site, m, rw, write || m != nil)
}

// Run drives the workers until all have finished, a deadlock is detected or
// the step cap is hit. It returns after a visible join with every worker.
//
//go:norace
func (s *Sched) Run() {
	c := s.C
	n := len(s.workers)
	progressAt := 0 // last step at which a non-blocked worker ran
	if s.pct {
		// a random permutation as priorities, change points spread over the span
		s.prio = make([]int, n)
		for i := range s.prio {
			s.prio[i] = i + 1
		}
		for i := n - 1; i > 0; i-- {
			j := c.Draw(i + 1)
			s.prio[i], s.prio[j] = s.prio[j], s.prio[i]
		}
		s.change = map[int]bool{}
		for i := 0; i < s.pctDeep; i++ {
			s.change[1+c.Draw(s.pctSpan)] = true
		}
	}
	for s.step = 1; ; s.step++ {
		var en []*W
		unfinished := 0
		for _, w := range s.workers {
			if w.finished {
				continue
			}
			unfinished++
			if w.blocked && w.lastRun >= progressAt {
				continue // still blocked: nobody else has moved since it failed
			}
			en = append(en, w)
		}
		if s.stallPm > 0 {
			// sleeping workers sit out, unless nobody else can run
			var awake []*W
			for _, w := range en {
				if w.sleepUntil <= s.step {
					awake = append(awake, w)
				}
			}
			if len(awake) > 0 {
				en = awake
			}
		}
		if unfinished == 0 {
			break
		}
		if len(en) == 0 {
			s.dead = true
			break
		}
		if s.step > s.MaxSteps {
			s.abortAll()
			c.Bugf("coop: step cap %d reached with %d of %d workers unfinished", s.MaxSteps, unfinished, n)
		}
		// order: the running worker first (0 = no pre-emption), then by id
		sort.SliceStable(en, func(i, j int) bool {
			if (en[i] == s.cur) != (en[j] == s.cur) {
				return en[i] == s.cur
			}
			return en[i].ID < en[j].ID
		})
		pick := en[0]
		if s.pct {
			best := func() *W {
				b := en[0]
				for _, w := range en {
					if s.prio[w.ID] > s.prio[b.ID] {
						b = w
					}
				}
				return b
			}
			pick = best()
			if s.change[s.step] {
				s.low--
				s.prio[pick.ID] = s.low
				pick = best()
			}
			if en[0] == s.cur && pick != s.cur {
				s.Switches++
				c.NonTrivial()
			}
		} else if len(en) > 1 && (en[0] != s.cur || c.Chance(s.preempt)) {
			if en[0] == s.cur {
				pick = en[1+c.Draw(len(en)-1)]
				s.Switches++
				c.NonTrivial()
			} else {
				pick = en[c.Draw(len(en))]
			}
		}
		s.cur = pick
		pick.lastRun = s.step
		s.trace = (s.trace ^ uint64(pick.ID+1) ^ uint64(pick.site)<<8) * 1099511628211
		pick.h.toWorker(msgRelease, int64(s.step))
		kind, v := s.waitWorker(pick)
		switch kind {
		case msgParked:
			site := int(v & 0xffffffff)
			pick.site = site
			pick.blocked = v>>32 != 0
			if !pick.blocked {
				progressAt = s.step
			}
			if s.stallPm > 0 && !pick.blocked && c.Chance(s.stallPm) {
				pick.sleepUntil = s.step + []int{5, 15, 30, 60}[c.Draw(4)]
				c.NonTrivial()
			}
		case msgFinished:
			pick.finished = true
			progressAt = s.step
		}
	}
	s.cur = nil
	if s.dead {
		// leave the blocked goroutines parked for ever: they hold locks of
		// objects nobody will touch again
		var names string
		for _, w := range s.workers {
			if !w.finished {
				names += fmt.Sprintf(" %s@site%d", w.Name, w.site)
			}
		}
		s.collect(false)
		c.Poisoned = true
		c.Fail("no-deadlock", "deadlock", "all workers blocked", "every unfinished worker is blocked on a lock:%s", names)
	}
	s.wg.Wait() // visible join: from here the controller may read the workers' logs
	s.collect(true)
}

//go:norace
func (s *Sched) waitWorker(w *W) (int, int64) { return w.h.fromWorker() }

func (s *Sched) abortAll() {
	for _, w := range s.workers {
		if !w.finished {
			w.h.toWorker(msgAbort, 0)
		}
	}
}

//go:norace
func (s *Sched) collect(joined bool) {
	for _, w := range s.workers {
		if w.bug != "" {
			s.C.Bugf("%s", w.bug)
		}
	}
	for _, w := range s.workers {
		if w.panicV != nil && s.C.V == nil {
			s.C.V = w.panicV
		}
	}
	if joined {
		for _, w := range s.workers {
			w.h.close()
		}
		if s.C.V != nil {
			s.C.Abort()
		}
	}
}

// Merged returns all worker events in execution order.
//
//go:norace
func (s *Sched) Merged() []Event {
	var all []Event
	for _, w := range s.workers {
		all = append(all, w.events...)
	}
	sort.SliceStable(all, func(i, j int) bool {
		if all[i].Step != all[j].Step {
			return all[i].Step < all[j].Step
		}
		return all[i].Idx < all[j].Idx
	})
	return all
}

// TraceHash identifies the interleaving (sequence of (worker, site) picks).
func (s *Sched) TraceHash() uint64 { return s.trace }

// PanicOf returns the first worker panic converted to a violation.
func (s *Sched) PanicOf() *sim.Violation {
	for _, w := range s.workers {
		if w.panicV != nil {
			return w.panicV
		}
	}
	return nil
}

//go:build race

package coop

import (
	"encoding/binary"
	"syscall"
	"unsafe"
)

// Pipe hand-off for -race builds. Go channels, mutexes and atomics would add
// happens-before edges between all workers and blind the race detector; raw
// read(2)/write(2) on a pipe, issued from //go:norace functions, are invisible
// to it. About 250 microseconds per round trip.

const (
	msgRelease = iota + 1
	msgAbort
	msgParked
	msgFinished
)

type handoff struct{ wr, ww, cr, cw int } // worker reads wr / controller writes ww; controller reads cr / worker writes cw

func newHandoff() handoff {
	var a, b [2]int
	if err := syscall.Pipe(a[:]); err != nil {
		panic(err)
	}
	if err := syscall.Pipe(b[:]); err != nil {
		panic(err)
	}
	return handoff{wr: a[0], ww: a[1], cr: b[0], cw: b[1]}
}

//go:norace
func rawWrite(fd int, k int, v int64) {
	var buf [9]byte
	buf[0] = byte(k)
	binary.LittleEndian.PutUint64(buf[1:], uint64(v))
	for off := 0; off < 9; {
		n, _, e := syscall.Syscall(syscall.SYS_WRITE, uintptr(fd), uintptr(unsafe.Pointer(&buf[off])), uintptr(9-off))
		if e != 0 {
			if e == syscall.EINTR {
				continue
			}
			panic("coop: pipe write: " + e.Error())
		}
		off += int(n)
	}
}

//go:norace
func rawRead(fd int) (int, int64) {
	var buf [9]byte
	for off := 0; off < 9; {
		n, _, e := syscall.Syscall(syscall.SYS_READ, uintptr(fd), uintptr(unsafe.Pointer(&buf[off])), uintptr(9-off))
		if e != 0 {
			if e == syscall.EINTR {
				continue
			}
			panic("coop: pipe read: " + e.Error())
		}
		if n == 0 {
			panic("coop: pipe closed")
		}
		off += int(n)
	}
	return int(buf[0]), int64(binary.LittleEndian.Uint64(buf[1:]))
}

//go:norace
func (h handoff) toWorker(k int, v int64) { rawWrite(h.ww, k, v) }

//go:norace
func (h handoff) toController(k int, v int64) { rawWrite(h.cw, k, v) }

//go:norace
func (h handoff) fromController() (int, int64) { return rawRead(h.wr) }

//go:norace
func (h handoff) fromWorker() (int, int64) { return rawRead(h.cr) }

func (h handoff) close() {
	for _, fd := range []int{h.wr, h.ww, h.cr, h.cw} {
		syscall.Close(fd)
	}
}

// RaceBuild reports whether the race detector is compiled in.
const RaceBuild = true

//go:build !race

package coop

// Channel hand-off for ordinary builds (about a microsecond per switch).

const (
	msgRelease = iota + 1
	msgAbort
	msgParked
	msgFinished
)

type msg struct {
	kind int
	v    int64
}

type handoff struct{ toW, toC chan msg }

func newHandoff() handoff { return handoff{make(chan msg, 1), make(chan msg, 1)} }

func (h handoff) toWorker(k int, v int64)     { h.toW <- msg{k, v} }
func (h handoff) toController(k int, v int64) { h.toC <- msg{k, v} }
func (h handoff) fromController() (int, int64) {
	m := <-h.toW
	return m.kind, m.v
}
func (h handoff) fromWorker() (int, int64) {
	m := <-h.toC
	return m.kind, m.v
}
func (h handoff) close() {}

// RaceBuild reports whether the race detector is compiled in.
const RaceBuild = false

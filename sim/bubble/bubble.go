// Package bubble is engine B: a testing/synctest bubble (fake clock, durable
// blocking detection) in which every actor waits at a gate and a controller,
// drawing from the tape, releases exactly one of them at a time and then waits
// until every goroutine of the bubble, gopacket's own included, is durably
// blocked again.
package bubble

import (
	"fmt"
	"runtime"
	"strings"
	"sync/atomic"
	"testing"
	"testing/synctest"

	"verif/sim"
)

// T is the *testing.T of the child's TestChild (synctest needs one).
var T *testing.T

// Actor is a goroutine of the harness that does one step per release.
type Actor struct {
	Name   string
	gate   chan func()
	resume chan struct{}
	state  atomic.Int32 // 0 at gate, 1 running/in-call, 2 finished, 3 parked at a hook inside a step
	Site   int          // hook site the actor is parked at
	fail   atomic.Pointer[Failure]
	closed bool
	gid    uint64 // id of the actor's goroutine
}

// goid returns the id of the calling goroutine (from the first line of its
// stack trace: "goroutine N [...").
func goid() uint64 {
	var buf [40]byte
	n := runtime.Stack(buf[:], false)
	var id uint64
	for _, c := range buf[len("goroutine "):n] {
		if c < '0' || c > '9' {
			break
		}
		id = id*10 + uint64(c-'0')
	}
	return id
}

// Failure is a violation raised inside an actor (actors must not panic).
type Failure struct{ Clause, Kind, Where, Detail string }

// AtGate reports whether the actor is parked at its gate (only meaningful
// right after synctest.Wait).
func (a *Actor) AtGate() bool { return a.state.Load() == 0 }

// InCall reports whether the actor is blocked inside a step.
func (a *Actor) InCall() bool { return a.state.Load() == 1 }

// Fail records a violation from inside an actor step.
func (a *Actor) Fail(clause, kind, where, format string, args ...any) {
	a.fail.CompareAndSwap(nil, &Failure{clause, kind, where, fmt.Sprintf(format, args...)})
}

// B is one bubble run.
type B struct {
	C      *sim.Ctx
	actors []*Actor
	panicV any
	where  string
	harn   bool
	Dead   bool // synctest reported a deadlock
	// DeadClause/DeadDetail, when set by the simulation, name the verdict that a
	// deadlock at the end of the bubble stands for (clause, kind, where)
	DeadClause [3]string
	DeadDetail string
}

// NewActor starts an actor goroutine inside the bubble.
func (b *B) NewActor(name string) *Actor {
	a := &Actor{Name: name, gate: make(chan func()), resume: make(chan struct{})}
	b.actors = append(b.actors, a)
	ready := make(chan struct{})
	go func() {
		a.gid = goid()
		close(ready)
		defer func() {
			if r := recover(); r != nil {
				where, harness := sim.PanicWhere()
				if harness {
					a.Fail("harness", "bug", where, "actor %s: %v", name, r)
				} else {
					a.Fail("no-panic", "panic", fmt.Sprintf("%q in %s", sim.PanicMsg(r), where), "actor %s: %v", name, r)
				}
			}
			a.state.Store(2)
		}()
		for f := range a.gate {
			a.state.Store(1)
			f()
			a.state.Store(0)
		}
	}()
	<-ready
	return a
}

// Step releases the actor to run f and waits for the bubble to settle.
func (b *B) Step(a *Actor, f func()) {
	if !a.AtGate() {
		b.C.Bugf("actor %s released while not at its gate", a.Name)
	}
	a.gate <- f
	synctest.Wait()
	b.Check()
}

// Yield parks the calling actor at a hook inside its current step until the
// controller resumes it (called from hooks in the code under test).
func (a *Actor) Yield(site int) {
	if goid() != a.gid {
		// The hook is being passed by some other goroutine - one that the code
		// under test started on its own (a version of it that does part of a
		// call's work in the background): that goroutine is not an actor, it
		// runs freely like the rest of the code under test.
		return
	}
	a.Site = site
	a.state.Store(3)
	<-a.resume
	a.state.Store(1)
}

// Yielded reports whether the actor is parked at a hook.
func (a *Actor) Yielded() bool { return a.state.Load() == 3 }

// Resume lets an actor parked at a hook continue and waits for the bubble to settle.
func (b *B) Resume(a *Actor) {
	if !a.Yielded() {
		b.C.Bugf("actor %s resumed while not parked at a hook", a.Name)
	}
	a.resume <- struct{}{}
	synctest.Wait()
	b.Check()
}

// Check converts an actor failure into the run's verdict.
func (b *B) Check() {
	for _, a := range b.actors {
		if f := a.fail.Load(); f != nil {
			if f.Clause == "harness" {
				b.C.Bugf("%s", f.Detail)
			}
			b.C.Fail(f.Clause, f.Kind, f.Where, "%s", f.Detail)
		}
	}
}

// Settle waits until every goroutine in the bubble is durably blocked.
func (b *B) Settle() { synctest.Wait(); b.Check() }

// Finish closes all gates of actors that are parked (call at the end of root).
func (b *B) Finish() {
	for round := 0; round < 50; round++ {
		again := false
		for _, a := range b.actors {
			if a.Yielded() {
				a.resume <- struct{}{}
				again = true
			}
		}
		synctest.Wait()
		if !again {
			break
		}
	}
	for _, a := range b.actors {
		if a.AtGate() && !a.closed {
			a.closed = true
			close(a.gate)
		}
	}
	synctest.Wait()
}

type rootFail struct{}

// Run executes root inside a fresh bubble. Panics of gopacket code in the
// root goroutine and the end-of-bubble deadlock panic become verdicts.
func Run(c *sim.Ctx, root func(b *B)) {
	if T == nil {
		c.Bugf("bubble.T not set")
	}
	b := &B{C: c}
	var sentinel any
	func() {
		defer func() {
			if r := recover(); r != nil {
				// raised by synctest.Test itself (deadlock at the end of the bubble)
				msg := fmt.Sprint(r)
				if strings.Contains(msg, "deadlock") {
					b.Dead = true
					return
				}
				panic(r)
			}
		}()
		synctest.Test(T, func(t *testing.T) {
			defer func() {
				if r := recover(); r != nil {
					b.where, b.harn = sim.PanicWhere()
					b.panicV = r
					sentinel = r
				}
			}()
			defer b.Finish()
			root(b)
		})
	}()
	if sentinel != nil {
		if _, ok := sentinel.(interface{ isSim() }); ok {
			panic(sentinel)
		}
		// sim's own sentinels (Fail/Bugf) pass through unchanged
		if fmt.Sprintf("%T", sentinel) == "sim.failSentinel" || fmt.Sprintf("%T", sentinel) == "sim.bugSentinel" {
			panic(sentinel)
		}
		if b.harn {
			c.Bugf("harness panic in bubble root: %v at %s", sentinel, b.where)
		}
		c.Fail("no-panic", "panic", fmt.Sprintf("%q in %s", sim.PanicMsg(sentinel), b.where), "%v", sentinel)
	}
	if b.Dead && b.DeadClause[0] != "" {
		c.Fail(b.DeadClause[0], b.DeadClause[1], b.DeadClause[2], "%s", b.DeadDetail)
	}
	if b.Dead {
		c.Fail("no-deadlock", "deadlock", "bubble", "goroutines of the bubble were still blocked when the run ended (synctest: deadlock)")
	}
}

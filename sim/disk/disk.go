// Package disk is engine D: the simulated file and stream handed to the
// capture-file writers and readers. A crash is a cut of the file at a byte
// offset; the stream splits its bytes into reads of seeded lengths, can fail
// at an absolute offset and turns "spins for ever at EOF" into a verdict.
package disk

import (
	"errors"
	"io"
)

// File is an io.Writer that remembers every write boundary.
type File struct {
	Data   []byte
	Bounds []int // file length after each Write call
	FailAt int   // fail the write that would cross this offset (-1: never)
}

// ErrInjected is the injected I/O error.
var ErrInjected = errors.New("simulated I/O error")

func NewFile() *File { return &File{FailAt: -1} }

func (f *File) Write(p []byte) (int, error) {
	if f.FailAt >= 0 && len(f.Data)+len(p) > f.FailAt {
		n := f.FailAt - len(f.Data)
		if n < 0 {
			n = 0
		}
		f.Data = append(f.Data, p[:n]...)
		return n, ErrInjected
	}
	f.Data = append(f.Data, p...)
	f.Bounds = append(f.Bounds, len(f.Data))
	return len(p), nil
}

// Spin is the panic value raised when a reader keeps calling Read after the
// stream has reported EOF or an error.
type Spin struct{ Calls int }

// Stream is an io.Reader over a byte string with seeded chunking and faults.
type Stream struct {
	Data        []byte
	Pos         int
	Mode        int    // 0 whole, 1 one byte, 2 random small, 3 fixed Step, 4 random up to len(p)
	Step        int    // for mode 3
	rng         uint64 // secondary generator for modes 2 and 4 (seeded from one tape draw)
	ErrAt       int    // absolute offset at which Read fails (-1: never)
	EOFWithData bool   // deliver the last bytes together with io.EOF
	ErrWithData bool   // deliver the bytes in front of ErrAt together with the error
	ZeroPm      int    // per-mille chance of a read that returns 0, nil (never three in a row)
	zeros       int
	ZeroReads   int
	Reads       int
	after       int
	MaxAfter    int
	Done        bool // EOF or error has been reported
	ShortReads  int
	OnSpin      func(calls int) // called instead of panicking with Spin
}

// NewStream builds a stream; seed feeds the secondary generator.
func NewStream(data []byte, mode, step int, seed uint64) *Stream {
	return &Stream{Data: data, Mode: mode, Step: step, rng: seed*2862933555777941757 + 3037000493, ErrAt: -1, MaxAfter: 1000}
}

func (s *Stream) next() uint64 {
	s.rng ^= s.rng << 13
	s.rng ^= s.rng >> 7
	s.rng ^= s.rng << 17
	return s.rng
}

func (s *Stream) Read(p []byte) (int, error) {
	s.Reads++
	if len(p) == 0 {
		return 0, nil
	}
	if s.ErrAt >= 0 && s.Pos >= s.ErrAt {
		s.fin()
		return 0, ErrInjected
	}
	if s.Pos >= len(s.Data) {
		s.fin()
		return 0, io.EOF
	}
	if s.ZeroPm > 0 && s.zeros < 2 && int(s.next()%1000) < s.ZeroPm {
		// legal for an io.Reader, if discouraged: nothing read, no error
		s.zeros++
		s.ZeroReads++
		return 0, nil
	}
	s.zeros = 0
	n := len(p)
	switch s.Mode {
	case 1:
		n = 1
	case 2:
		n = 1 + int(s.next()%7)
	case 3:
		n = s.Step
	case 4:
		n = 1 + int(s.next()%uint64(len(p)))
	}
	if n > len(p) {
		n = len(p)
	}
	if n > len(s.Data)-s.Pos {
		n = len(s.Data) - s.Pos
	}
	if s.ErrAt >= 0 && s.Pos+n > s.ErrAt {
		n = s.ErrAt - s.Pos
		if n == 0 {
			s.fin()
			return 0, ErrInjected
		}
	}
	if n < len(p) && s.Pos+n < len(s.Data) {
		s.ShortReads++
	}
	copy(p, s.Data[s.Pos:s.Pos+n])
	s.Pos += n
	if s.ErrWithData && s.ErrAt >= 0 && s.Pos == s.ErrAt {
		s.Done = true
		return n, ErrInjected
	}
	if s.EOFWithData && s.Pos == len(s.Data) && (s.ErrAt < 0 || s.ErrAt > s.Pos) {
		s.Done = true
		return n, io.EOF
	}
	return n, nil
}

func (s *Stream) fin() {
	if s.Done {
		s.after++
		if s.after > s.MaxAfter {
			if s.OnSpin != nil {
				s.OnSpin(s.after)
			}
			panic(Spin{s.after})
		}
	}
	s.Done = true
}

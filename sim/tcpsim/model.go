package tcpsim

import (
	"bytes"
	"time"

	"github.com/gopacket/gopacket"
	"github.com/gopacket/gopacket/layers"

	"verif/sim"
)

// Assembler is what the two assembler packages look like to the simulation.
type Assembler interface {
	Assemble(net gopacket.Flow, t *layers.TCP, ts time.Time)
	FlushT(t time.Time) (flushed, closed int)     // release data older than t, never close
	FlushClose(t time.Time) (flushed, closed int) // release and close older than t
	FlushAll() int
	SetLimits(perConn, total int)
	PagesUsed() int
	PoolConns() int
	Queued() (maxPages, queued int, oldestHead time.Time, any bool)
}

// Call kinds.
const (
	CallNone = iota
	CallAssemble
	CallFlushT
	CallFlushClose
	CallFlushAll
)

// SD is the delivery model of one direction as seen by one stream object.
type SD struct {
	Dir        *Dir
	Anchored   bool // SYN fed before anything was delivered: strong rules apply
	SynFed     bool
	Deliveries int
	Pos        int  // next undelivered offset (strong), or tracked offset (weak)
	PosKnown   bool // weak mode: position located in S
	fedEv      []int32
	fedAtMin   []int64 // earliest capture time (event clock) at which this offset arrived, valid where fedEv != 0
	FedHigh    int
	openFed    bool
	Delivered  int
	Skipped    int
	skippedAt  []bool
	Ended      bool
	EndFed     bool // a FIN or RST of this direction has been handed to the assembler
}

// Stream is the harness side of one stream object handed out by the factory.
type Stream struct {
	ID   int
	Dir0 int // direction of the packet that created it
	// LastFedAt: capture time of the most recent packet fed to the connection
	// this stream belongs to (valid if HasFed); EndedInCall: an end-of-stream
	// delivery reached it during the call in progress
	LastFedAt   int64
	HasFed      bool
	EndedInCall int32
	Bidir       bool
	Completed   int
	Removed     bool // completion answered "remove"
	sd          map[int]*SD
	Inside      bool
	Callbacks   int
}

// Harness owns the model for one run.
type Harness struct {
	C         *sim.Ctx
	P         *Plan
	A         Assembler
	Strong    bool // byte-exact delivery rules (C09/C10); off for lifecycle runs with re-opened tuples
	Lifecycle bool // completion / leak / limit / age clauses (C11)
	Bidir     bool // one stream serves both directions (reassembly)
	NoKeep    bool // no stream of the run keeps pages (limit oracle applies)
	Streams   []*Stream
	cur       map[int]*Stream // direction -> live stream
	byFlow    map[[2]gopacket.Flow][]int
	// current call
	Kind       int
	StartEv    int32
	PrePages   int
	PreMax     int
	PktPages   int
	CutOff     time.Time
	CutOffC    time.Time // closing cut-off of the flush in progress
	created    *Stream
	feeding    *Pkt
	endFeeding bool // the packet being fed is a FIN or RST
	liveAt     *Stream
	Completes  int // completions during the current call
	LimitSkips int
}

// NewHarness builds the harness for a plan.
func NewHarness(c *sim.Ctx, p *Plan) *Harness {
	h := &Harness{C: c, P: p, cur: map[int]*Stream{}, byFlow: map[[2]gopacket.Flow][]int{}}
	for _, d := range p.Dirs {
		k := [2]gopacket.Flow{d.Net, gopacket.NewFlow(layers.EndpointTCPPort, portBytes(d.Src), portBytes(d.Dst))}
		h.byFlow[k] = append(h.byFlow[k], d.Idx)
	}
	return h
}

func portBytes(p layers.TCPPort) []byte { return []byte{byte(p >> 8), byte(p)} }

// curInc: the incarnation of a 4-tuple currently being fed.
func (h *Harness) dirFor(net, tcp gopacket.Flow, inc int) *Dir {
	l := h.byFlow[[2]gopacket.Flow{net, tcp}]
	for _, i := range l {
		if h.P.Dirs[i].Inc == inc {
			return h.P.Dirs[i]
		}
	}
	if len(l) > 0 {
		return h.P.Dirs[l[0]]
	}
	return nil
}

func (h *Harness) rev(d *Dir) *Dir {
	for _, o := range h.P.Dirs {
		if o.Conn == d.Conn && o.Inc == d.Inc && o.Side != d.Side {
			return o
		}
	}
	return nil
}

var curInc int // incarnation of the packet being fed (single-threaded engine C)

// NewStream is called by the adapter's factory.
func (h *Harness) NewStream(net, tcp gopacket.Flow) *Stream {
	d := h.dirFor(net, tcp, curInc)
	if d == nil {
		h.C.Bugf("factory called for unknown flow %v %v", net, tcp)
	}
	s := &Stream{ID: len(h.Streams), Dir0: d.Idx, Bidir: h.Bidir, sd: map[int]*SD{}}
	h.Streams = append(h.Streams, s)
	h.C.Ev("new_stream", int64(s.ID), int64(d.Idx))
	if old := h.cur[d.Idx]; old != nil && old.Completed == 0 {
		h.C.Fail("single-entry", "duplicate-stream", "factory", "second stream created for direction %d while stream %d is live", d.Idx, old.ID)
	}
	h.cur[d.Idx] = s
	if h.Bidir {
		if r := h.rev(d); r != nil {
			if old := h.cur[r.Idx]; old != nil && old.Completed == 0 {
				h.C.Fail("single-entry", "duplicate-stream", "factory", "second stream created for connection of direction %d while stream %d is live", r.Idx, old.ID)
			}
			h.cur[r.Idx] = s
		}
	}
	h.created = s
	if h.feeding != nil && h.feeding.SYN {
		x := h.sdOf(s, d)
		x.SynFed, x.Anchored = true, true
	}
	if h.endFeeding {
		h.sdOf(s, d).EndFed = true
	}
	return s
}

func (h *Harness) sdOf(s *Stream, d *Dir) *SD {
	x := s.sd[d.Idx]
	if x == nil {
		x = &SD{Dir: d, fedEv: make([]int32, len(d.S)), fedAtMin: make([]int64, len(d.S)), skippedAt: make([]bool, len(d.S))}
		s.sd[d.Idx] = x
	}
	return x
}

// DirOf maps a stream-relative side (0 = direction that created the stream)
// to the direction.
func (h *Harness) DirOf(s *Stream, side int) *Dir {
	d := h.P.Dirs[s.Dir0]
	if side == 0 {
		return d
	}
	r := h.rev(d)
	if r == nil {
		// the reverse direction is not part of the plan (one-directional
		// connection): nothing can be delivered for it
		h.C.Fail("in-order", "invented", "delivery", "delivery for a direction that never sent anything (stream %d)", s.ID)
	}
	return r
}

// PageBytes is the page size of the assembler under test (set by the adapter
// from the package's verif accessor; 1900 in the shipped code).
var PageBytes = 1900

func pagesOf(n int) int {
	if n <= 0 {
		return 1
	}
	return (n + PageBytes - 1) / PageBytes
}

// Deliver applies the delivery model to one hand-over of new data.
func (h *Harness) Deliver(s *Stream, d *Dir, skip int, b []byte, start, end bool, seen time.Time) {
	c := h.C
	c.Ev("deliver", int64(s.ID), int64(d.Idx), int64(skip), int64(len(b)), b2i(start), b2i(end))
	if s.Completed > 0 {
		c.Fail("lifecycle", "data-after-completion", "stream", "stream %d got data for dir %d after its completion callback", s.ID, d.Idx)
	}
	if end {
		s.EndedInCall = h.StartEv
	}
	x := h.sdOf(s, d)
	first := x.Deliveries == 0
	x.Deliveries++
	if skip < -1 && h.Strong {
		// (in runs that re-open a 4-tuple, a late segment of the previous
		// incarnation can legitimately sit "behind" the new one)
		c.Fail("gaps", "bad-skip", "delivery", "skip=%d", skip)
	}
	if skip == -1 && x.SynFed {
		c.Fail("gaps", "unknown-skip-after-start", "delivery", "skip=-1 on stream %d dir %d although its SYN had been seen", s.ID, d.Idx)
	}
	if skip > 0 || skip == -1 {
		switch h.Kind {
		case CallFlushT, CallFlushClose, CallFlushAll:
			c.Probe("flush_forced_skip")
			if (h.Kind == CallFlushT || h.Kind == CallFlushClose) && !seen.IsZero() && !seen.Before(h.CutOff) {
				c.Fail("age-flush", "released-newer-data", "flush", "flush with cut-off %v skipped ahead to data captured at %v", h.CutOff.Sub(Base), seen.Sub(Base))
			}
		case CallAssemble:
			lim := false
			if h.P.PerConnLimit > 0 && h.PreMax+h.PktPages >= h.P.PerConnLimit {
				lim = true
			}
			if h.P.TotalLimit > 0 && h.PrePages+h.PktPages >= h.P.TotalLimit {
				lim = true
			}
			if !lim {
				c.Fail("gaps", "silent-skip", "assemble", "skip=%d during Assemble with no flush and no buffer limit reached (limits %d/%d, pages before %d/%d, packet pages %d)", skip, h.P.PerConnLimit, h.P.TotalLimit, h.PreMax, h.PrePages, h.PktPages)
			}
			h.LimitSkips++
			c.Probe("limit_forced_skip")
		default:
			c.Bugf("delivery outside any call")
		}
	}
	if !h.Strong {
		if end {
			x.Ended = true
		}
		return
	}
	S := d.S
	if x.Anchored {
		if skip > 0 {
			if x.Pos+skip > len(S) {
				c.Fail("gaps", "skip-too-large", "delivery", "dir %d: skip=%d at pos %d but the stream has only %d bytes", d.Idx, skip, x.Pos, len(S))
			}
			for o := x.Pos; o < x.Pos+skip; o++ {
				if ev := x.fedEv[o]; ev != 0 && ev < h.StartEv {
					c.Fail("gaps", "arrived-bytes-skipped", "delivery", "dir %d: skip of %d at pos %d passes over offset %d which had arrived earlier", d.Idx, skip, x.Pos, o)
				}
				x.skippedAt[o] = true
			}
			// age-based release, judged by what the harness itself knows: the
			// byte the flush skipped ahead to was never captured before the
			// cut-off (whatever capture time the assembler reports for it)
			if o := x.Pos + skip; (h.Kind == CallFlushT || h.Kind == CallFlushClose) && !h.CutOff.IsZero() && len(b) > 0 && o < len(S) && x.fedEv[o] != 0 && !T(x.fedAtMin[o]).Before(h.CutOff) {
				c.Fail("age-flush", "released-newer-data", "flush", "flush with cut-off %v skipped ahead to offset %d of dir %d, which was first captured at %v", h.CutOff.Sub(Base), o, d.Idx, T(x.fedAtMin[o]).Sub(Base))
			}
			x.Pos += skip
			x.Skipped += skip
		}
		if x.Pos+len(b) > len(S) || !bytes.Equal(b, S[x.Pos:x.Pos+len(b)]) {
			c.Fail("in-order", "wrong-bytes", "delivery", "dir %d (isn %#x): %d bytes delivered at pos %d (skip %d) differ from the sender's stream: %s", d.Idx, d.ISN, len(b), x.Pos, skip, diffDesc(b, S, x.Pos))
		}
		if wrapAt := int(uint32(0) - (d.ISN + 1)); wrapAt > x.Pos && wrapAt < x.Pos+len(b) {
			c.Probe("wrap_inside_delivery")
		}
		x.Pos += len(b)
		x.Delivered += len(b)
		if end && !x.EndFed {
			c.Fail("in-order", "end-without-fin-or-rst", "delivery", "dir %d: the end of the stream was signalled at offset %d although no FIN or RST of this direction has arrived", d.Idx, x.Pos)
		}
		if end && x.Pos < d.EndOff() {
			c.Fail("in-order", "end-before-fin-position", "delivery", "dir %d: the end of the stream was signalled at offset %d; the sender's FIN/RST is at offset %d", d.Idx, x.Pos, d.EndOff())
		}
	} else {
		// weak mode: the start of this direction was not seen before data
		// was released; track position once it can be located
		if d.SynData > 0 {
			// a data-carrying SYN that arrives after a forced release is
			// outside what the statements cover (start not seen first)
			if end {
				x.Ended = true
			}
			return
		}
		if first && skip == 0 && !x.SynFed && len(b) > 0 {
			// data without SYN and without "unknown" skip: only legal when the
			// stream was force-started; not generated by the harness
			c.Fail("gaps", "unannounced-start", "delivery", "dir %d: first delivery without SYN has skip=0", d.Idx)
		}
		if x.PosKnown && skip >= 0 {
			x.Pos += skip
			if x.Pos+len(b) > len(S) || !bytes.Equal(b, S[x.Pos:x.Pos+len(b)]) {
				c.Fail("in-order", "wrong-bytes", "delivery", "dir %d (start not seen): %d bytes at tracked pos %d differ: %s", d.Idx, len(b), x.Pos, diffDesc(b, S, x.Pos))
			}
			x.Pos += len(b)
		} else if len(b) >= 8 {
			i := bytes.Index(S, b)
			if i < 0 {
				c.Fail("in-order", "wrong-bytes", "delivery", "dir %d (start not seen): %d delivered bytes occur nowhere in the sender's stream", d.Idx, len(b))
			}
			x.Pos, x.PosKnown = i+len(b), true
		} else if len(b) > 0 {
			x.PosKnown = false
		}
		c.Probe("delivery_without_start")
	}
	if end {
		x.Ended = true
	}
}

func diffDesc(b, S []byte, pos int) string {
	for i := range b {
		if pos+i >= len(S) {
			return "delivery runs past the end of the stream (invented bytes)"
		}
		if b[i] != S[pos+i] {
			// where do the delivered bytes come from?
			src := -1
			if len(b)-i >= 4 {
				src = bytes.Index(S, b[i:min(len(b), i+8)])
			}
			return "first difference at delivered index " + itoa(i) + " (stream offset " + itoa(pos+i) + "); those bytes are the sender's offset " + itoa(src)
		}
	}
	return "equal"
}

func itoa(i int) string {
	if i < 0 {
		return "-" + itoa(-i)
	}
	if i < 10 {
		return string(rune('0' + i))
	}
	return itoa(i/10) + string(rune('0'+i%10))
}

func b2i(b bool) int64 {
	if b {
		return 1
	}
	return 0
}

// Complete is called by the adapter on the completion callback. remove tells
// whether the stream accepts removal from the pool.
func (h *Harness) Complete(s *Stream, remove bool) {
	h.C.Ev("complete", int64(s.ID), b2i(remove))
	s.Completed++
	h.Completes++
	if s.Completed > 1 {
		h.C.Fail("lifecycle", "completed-twice", "stream", "stream %d got its completion callback %d times", s.ID, s.Completed)
	}
	s.Removed = remove
	// Closing by age: a connection whose most recent packet was captured at or
	// after the closing cut-off is not "older than" it under any reading
	// (unless what closes it is a FIN/RST that this very flush released).
	if h.Kind == CallFlushClose && h.Lifecycle && s.HasFed && !h.CutOffC.IsZero() && !T(s.LastFedAt).Before(h.CutOffC) && s.EndedInCall != h.StartEv {
		h.C.Fail("age-flush", "closed-active-connection", "flush", "a closing flush with cut-off %v completed stream %d, whose connection received a packet captured at %v", h.CutOffC.Sub(Base), s.ID, T(s.LastFedAt).Sub(Base))
	}
	if h.Kind == CallNone {
		h.C.Bugf("completion outside any call")
	}
}

// Enter/Leave bracket stream callbacks to check they never nest or overlap.
func (h *Harness) Enter(s *Stream) {
	if s.Inside {
		h.C.Fail("serial-callbacks", "overlap", "stream", "callback of stream %d entered while another is running", s.ID)
	}
	s.Inside = true
	s.Callbacks++
}
func (h *Harness) Leave(s *Stream) { s.Inside = false }

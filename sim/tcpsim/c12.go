package tcpsim

import (
	"bytes"
	"fmt"
	"sync"
	"sync/atomic"
	"time"

	"github.com/gopacket/gopacket"
	"github.com/gopacket/gopacket/layers"
	"github.com/gopacket/gopacket/verifhook"

	"verif/sim"
	"verif/sim/coop"
)

// C12Asm is one assembler on the shared pool.
type C12Asm interface {
	Assemble(net gopacket.Flow, t *layers.TCP, ts time.Time)
	FlushT(t time.Time) (int, int)
	FlushClose(t time.Time) (int, int)
	FlushAll() int
}

// C12Pkg is what an assembler package looks like to the C12 simulation.
type C12Pkg struct {
	Bidir        bool
	SetHook      func(func(site int, m *sync.Mutex, rw *sync.RWMutex, write bool))
	SetOrder     func(func(keys []string) []int)
	NewPool      func(h *C12) // creates the shared pool with a factory that calls h.NewStream
	NewAssembler func() C12Asm
	PoolConns    func() int
	Dump         func() // optional: the pool's diagnostic dump, callable at any time from any goroutine
}

// C12Stream is the harness side of a stream object.
type C12Stream struct {
	ID     int
	Dir0   int
	Canary int // plain field written in every callback: in -race builds two callbacks not ordered by a real lock are reported
}

// C12 is the shared harness of one run.
type C12 struct {
	S      *coop.Sched
	Plan   *Plan
	byFlow map[[2]gopacket.Flow]int
	nextID []int // per worker
	// re-opened connections: the direction that follows dir (same 4-tuple,
	// next incarnation), and per connection whether its barrier has been passed
	next   map[int]int
	reborn []atomic.Bool
}

// site numbers of harness yield points (lock sites of the code under test are 1..9)
const (
	siteCallStart = 100
	siteCallEnd   = 101
	siteCallback  = 102
	siteFactory   = 103
	siteBarrier   = 104
)

// NewStream is called from the package's factory, on whatever worker runs.
//
//go:norace
func (h *C12) NewStream(net, tcp gopacket.Flow) *C12Stream {
	d := h.byFlow[[2]gopacket.Flow{net, tcp}]
	if n, ok := h.next[d]; ok && h.reborn[h.Plan.Dirs[d].Conn].Load() {
		// every packet of the first incarnation has been fed: this stream is
		// for the re-opened connection
		d = n
	}
	w := h.S.Current()
	id := 0
	if w != nil {
		id = (w.ID+1)*1000 + h.nextID[w.ID]
		h.nextID[w.ID]++
		w.Rec("new", int64(id), int64(d), 0, "", nil)
		w.Yield(siteFactory)
	}
	return &C12Stream{ID: id, Dir0: d}
}

// Deliver / Complete / Accept are called from the stream stubs.
func (h *C12) Deliver(s *C12Stream, side int, skip int, b []byte, start, end bool) {
	s.Canary++ // deliberately unprotected by the harness: the connection lock must order it
	w := h.S.Current()
	if w == nil {
		finalDelivers = append(finalDelivers, finalDelivery{s.ID, side, skip, append([]byte(nil), b...)})
		return
	}
	w.Rec("cb_enter", int64(s.ID), 0, 0, "", nil)
	fl := int64(0)
	if start {
		fl |= 1
	}
	if end {
		fl |= 2
	}
	w.Rec("deliver", int64(s.ID), int64(side), int64(skip)<<8|fl, "", b)
	w.Yield(siteCallback)
	w.Rec("cb_exit", int64(s.ID), 0, 0, "", nil)
}

func (h *C12) Complete(s *C12Stream) {
	s.Canary++
	w := h.S.Current()
	if w == nil {
		finalCompletes = append(finalCompletes, s.ID)
		return
	}
	w.Rec("cb_enter", int64(s.ID), 1, 0, "", nil)
	w.Rec("complete", int64(s.ID), 0, 0, "", nil)
	w.Yield(siteCallback)
	w.Rec("cb_exit", int64(s.ID), 1, 0, "", nil)
}

func (h *C12) Accept(s *C12Stream) {
	s.Canary++
	w := h.S.Current()
	if w == nil {
		return
	}
	w.Rec("cb_enter", int64(s.ID), 2, 0, "", nil)
	w.Rec("accept", int64(s.ID), 0, 0, "", nil)
	w.Yield(siteCallback)
	w.Rec("cb_exit", int64(s.ID), 2, 0, "", nil)
}

// deliveries and completions that happen in the single-threaded final flush
var finalCompletes []int
var finalDelivers []finalDelivery

type finalDelivery struct {
	id, side, skip int
	data           []byte
}

// RunC12 is one simulated run for a package.
func RunC12(c *sim.Ctx, pkg *C12Pkg) {
	// ---- plan: short connections, in order per direction ----
	p := &Plan{}
	nconn := 1 + c.Weighted(3, 3, 2)
	nworkers := 2 + c.Weighted(3, 1)
	split := c.Chance(250) // packets of one direction split across workers
	flusher := c.Chance(500)
	// what the concurrent flusher does is decided first: connections are only
	// re-opened in runs in which nothing but their own FINs closes them
	nfl := 0
	var flAll, flClosing []bool
	closingFlush := false
	if flusher {
		nfl = 1 + c.Draw(3)
		for i := 0; i < nfl; i++ {
			flAll = append(flAll, c.Chance(150))
			flClosing = append(flClosing, c.Chance(300))
			closingFlush = closingFlush || flAll[i] || flClosing[i]
		}
	}
	type job struct {
		pk      *Pkt
		at      int64
		barrier int // >= 0: wait until every worker has fed its part of the first incarnation of this connection
	}
	jobs := make([][]job, nworkers)
	// Per worker, the jobs of one connection form a sequence whose order is
	// kept; in half of the runs the sequences of different connections are
	// merged in a drawn order instead of following each other (connection B may
	// open, close or be re-opened in the middle of connection A's packets).
	interleave := c.Chance(500)
	seqs := make([][][]job, nworkers)
	seqOf := map[[2]int]int{}
	addJob := func(w, conn int, j job) {
		k, ok := seqOf[[2]int{w, conn}]
		if !ok {
			seqs[w] = append(seqs[w], nil)
			k = len(seqs[w]) - 1
			seqOf[[2]int{w, conn}] = k
		}
		seqs[w][k] = append(seqs[w][k], j)
	}
	barrierUsed := false
	t := int64(0)
	lostIn := map[int]bool{} // direction index -> one of its segments is lost
	next := map[int]int{}    // direction -> its next incarnation
	parties := map[int]int{} // connection -> number of workers at its barrier
	gates := map[int]*sync.Mutex{}
	loose := map[int]bool{} // connections re-opened without ordering: only the every-interleaving rules apply to them
	for ci := 0; ci < nconn; ci++ {
		ndir := 1 + c.Weighted(1, 4)
		w0 := c.Draw(nworkers)
		// a re-opened 4-tuple: once the connection has been closed by the FINs
		// of all its directions, the same addresses and ports are used again
		// (one barrier per run when the connections are interleaved: two could be
		// reached in opposite orders by two workers)
		reopen := !split && !closingFlush && (ndir == 2 || !pkg.Bidir) && c.Chance(250) && !(interleave && barrierUsed)
		// (with packets split across workers nothing orders the two
		// incarnations: no barrier, no completeness demand - only the rules that
		// hold for every interleaving)
		// (the same where a concurrent flusher closes connections: a half closed
		// early makes the rest of an incarnation land wherever the pool puts it)
		reopenFree := (split || closingFlush) && (ndir == 2 || !pkg.Bidir) && c.Chance(300)
		if reopenFree {
			loose[ci] = true
		}
		for inc := 0; inc < 2; inc++ {
			if inc == 1 && reopenFree {
				c.Fault("connection_reopened_unordered")
			} else if inc == 1 {
				if !reopen {
					break
				}
				for side := 0; side < ndir; side++ {
					d := p.Dirs[len(p.Dirs)-ndir+side]
					if d.End != 0 || lostIn[d.Idx] {
						reopen = false
					}
				}
				if !reopen {
					break
				}
				ws := map[int]bool{}
				for side := 0; side < ndir; side++ {
					ws[(w0+side)%nworkers] = true
				}
				for w := 0; w < nworkers; w++ {
					if ws[w] {
						t += 1000
						addJob(w, ci, job{at: t, barrier: ci})
					}
				}
				parties[ci] = len(ws)
				gates[ci] = &sync.Mutex{}
				barrierUsed = true
				c.Fault("connection_reopened")
			}
			for side := 0; side < ndir; side++ {
				d := &Dir{Idx: len(p.Dirs), Conn: ci, Side: side, Inc: inc, End: 2}
				if inc == 1 && !reopenFree {
					next[d.Idx-ndir] = d.Idx
				}
				src := []byte{10, 0, 0, byte(ci + 1)}
				dst := []byte{10, 1, 0, byte(ci + 1)}
				sp, dp := layers.TCPPort(1000+ci), layers.TCPPort(80)
				if side == 1 {
					src, dst, sp, dp = dst, src, dp, sp
				}
				d.Net = gopacket.NewFlow(layers.EndpointIPv4, src, dst)
				d.Src, d.Dst = sp, dp
				n := 1 + c.Draw(40)
				fillStream(d, n)
				d.ISN = []uint32{1000, 0xFFFFFFF0, 77}[c.Weighted(3, 1, 1)] + uint32(inc)*500000
				p.Dirs = append(p.Dirs, d)
				// the two directions of a connection go to different workers
				w := (w0 + side) % nworkers
				var pks []*Pkt
				pks = append(pks, &Pkt{Dir: d.Idx, Seq: d.ISN, SYN: true, Kind: "syn"})
				nseg := 1 + c.Draw(3)
				for off, k := 0, 0; off < n; k++ {
					l := 1 + c.Draw(n)
					if k == nseg-1 || off+l > n {
						l = n - off
					}
					pks = append(pks, &Pkt{Dir: d.Idx, Seq: d.ISN + 1 + uint32(off), Off: off, Len: l, Kind: "data"})
					off += l
				}
				if c.Chance(800) {
					pks = append(pks, &Pkt{Dir: d.Idx, Seq: d.ISN + 1 + uint32(n), FIN: true, Off: n, Kind: "end"})
					d.End = 0
				}
				if len(pks) > 3 && c.Chance(250) {
					// one data segment is lost on the way: only a flush can release what follows
					k := 1 + c.Draw(len(pks)-2)
					if pks[k].Kind == "data" {
						pks = append(pks[:k], pks[k+1:]...)
						lostIn[d.Idx] = true
						c.Fault("segment_lost")
					}
				}
				for _, pk := range pks {
					t += 1000
					ww := w
					if split {
						ww = c.Draw(nworkers)
					}
					addJob(ww, ci, job{pk, t, -1})
				}
			}
		}
	}
	for w := range seqs {
		if !interleave {
			for _, q := range seqs[w] {
				jobs[w] = append(jobs[w], q...)
			}
			continue
		}
		left := 0
		for _, q := range seqs[w] {
			left += len(q)
		}
		for left > 0 {
			var ne []int
			for k, q := range seqs[w] {
				if len(q) > 0 {
					ne = append(ne, k)
				}
			}
			k := ne[c.Draw(len(ne))]
			jobs[w] = append(jobs[w], seqs[w][k][0])
			seqs[w][k] = seqs[w][k][1:]
			left--
		}
	}
	if interleave && nconn > 1 {
		c.Fault("connections_interleaved")
	}
	c.Ev("plan", int64(nconn), int64(len(p.Dirs)), int64(nworkers), b2i(split), b2i(flusher))
	for _, d := range p.Dirs {
		c.Ev("dir", int64(d.Idx), int64(d.Conn), int64(d.Side), int64(d.ISN), int64(len(d.S)))
	}
	// ---- set up: single-threaded ----
	s := coop.New(c)
	h := &C12{S: s, Plan: p, byFlow: map[[2]gopacket.Flow]int{}, nextID: make([]int, nworkers+2), next: next, reborn: make([]atomic.Bool, nconn)}
	for _, d := range p.Dirs {
		if d.Inc == 0 {
			h.byFlow[[2]gopacket.Flow{d.Net, gopacket.NewFlow(layers.EndpointTCPPort, portBytes(d.Src), portBytes(d.Dst))}] = d.Idx
		}
	}
	arrived := make([]atomic.Int32, nconn)
	for _, g := range gates {
		g.Lock() // opened by the last worker to arrive
	}
	finalCompletes, finalDelivers = nil, nil
	pkg.SetHook(s.LockHook)
	verifhook.Hook = s.AnyLockHook // lock sites without a hand-placed hook (instrumented build)
	pkg.SetOrder(func(keys []string) []int {
		perm := make([]int, len(keys))
		for i := range perm {
			perm[i] = i
		}
		return perm
	})
	pkg.NewPool(h)
	// In a quarter of the runs only the first assembler exists when traffic
	// starts: the others (and the flusher's) are created on the pool by their
	// own goroutines when they first need them, while the pool is in use.
	lateJoin := c.Chance(250)
	if lateJoin {
		c.Fault("assemblers_join_a_pool_in_use")
	}
	asms := make([]C12Asm, nworkers)
	for i := range asms {
		if i == 0 || !lateJoin {
			asms[i] = pkg.NewAssembler()
		}
	}
	for wi := 0; wi < nworkers; wi++ {
		wi := wi
		s.Go(fmt.Sprintf("asm%d", wi), func(w *coop.W) {
			for ji, j := range jobs[wi] {
				if j.barrier >= 0 {
					// a real lock as the gate: the scheduler sees a waiting worker as
					// blocked, like on any lock of the code under test
					g := gates[j.barrier]
					w.Rec("barrier", int64(j.barrier), 0, 0, "", nil)
					if int(arrived[j.barrier].Add(1)) == parties[j.barrier] {
						h.reborn[j.barrier].Store(true)
						g.Unlock()
					} else {
						s.LockHook(siteBarrier, g, nil, true)
						g.Lock()
						g.Unlock()
					}
					w.Rec("barrier_passed", int64(j.barrier), 0, 0, "", nil)
					continue
				}
				d := p.Dirs[j.pk.Dir]
				tcp, buf := p.TCP(j.pk)
				w.Rec("call_enter", int64(j.pk.Dir), int64(j.pk.Off), int64(j.pk.Len)<<2|b2i(j.pk.SYN)<<1|b2i(j.pk.FIN), "assemble", nil)
				w.Yield(siteCallStart)
				if asms[wi] == nil {
					asms[wi] = pkg.NewAssembler()
				}
				asms[wi].Assemble(d.Net, tcp, T(j.at))
				for i := range buf {
					buf[i] = 0xEE
				}
				w.Rec("call_exit", int64(ji), 0, 0, "assemble", nil)
				w.Yield(siteCallEnd)
			}
		})
	}
	if flusher {
		var fa C12Asm
		if !lateJoin {
			fa = pkg.NewAssembler()
		}
		cut := make([]int64, nfl)
		all, closing := flAll, flClosing
		for i := range cut {
			cut[i] = int64(c.Draw(int(t/1000)+2)) * 1000
		}
		c.Fault("concurrent_flusher")
		s.Go("flusher", func(w *coop.W) {
			for i := range cut {
				w.Rec("call_enter", int64(i), cut[i], b2i(all[i]), "flush", nil)
				w.Yield(siteCallStart)
				if fa == nil {
					fa = pkg.NewAssembler()
				}
				switch {
				case all[i]:
					fa.FlushAll()
				case closing[i]:
					fa.FlushClose(T(cut[i]))
				default:
					fa.FlushT(T(cut[i]))
				}
				w.Rec("call_exit", int64(i), 0, 0, "flush", nil)
				w.Yield(siteCallEnd)
			}
		})
	}
	if pkg.Dump != nil && c.Chance(150) {
		// somebody looks at the pool while it is in use (a debug handler, a
		// signal handler): a reader of the pool like any other
		nd := 1 + c.Draw(3)
		c.Fault("pool_dumped_concurrently")
		s.Go("dumper", func(w *coop.W) {
			for i := 0; i < nd; i++ {
				w.Rec("call_enter", int64(i), 0, 0, "dump", nil)
				w.Yield(siteCallStart)
				pkg.Dump()
				w.Rec("call_exit", int64(i), 0, 0, "dump", nil)
				w.Yield(siteCallEnd)
			}
		})
	}
	s.Run()
	// ---- final flush, single-threaded ----
	pkg.SetHook(nil)
	verifhook.Hook = nil
	closed := asms[0].FlushAll()
	c.Ev("final_flush_all", int64(closed), int64(s.Switches))
	c.State(s.TraceHash())
	if s.Switches > 0 {
		c.Probe("preempted_runs")
	}
	merged := s.Merged()
	for _, e := range merged {
		// the interleaved history, as executed: step, worker, what
		c.Ev("w:"+e.Kind+e.S, int64(e.Step), int64(e.W), e.A, e.B, e.C, int64(len(e.Data)))
	}
	// directions every byte of which has to come out: fed in order by one
	// assembler, nothing lost, and no flush that closes connections under it
	must := map[int]bool{}
	if !split && !closingFlush {
		for _, d := range p.Dirs {
			if !lostIn[d.Idx] {
				must[d.Idx] = true
			}
		}
	}
	checkC12(c, h, merged, pkg, split, must, loose)
	if n := pkg.PoolConns(); n != 0 {
		c.Fail("lifecycle", "connections-left", "flush-all", "%d connections remain in the pool after the final flush-all", n)
	}
}

type c12st struct {
	id        int
	dir0      int
	created   int // event index
	firstCB   int
	completed int
	inside    int // worker currently inside a callback, -1 none
	sd        map[int]*c12sd
}

type c12sd struct {
	pos        int
	anchored   bool
	deliveries int
}

// checkC12 evaluates the merged history.
func checkC12(c *sim.Ctx, h *C12, evs []coop.Event, pkg *C12Pkg, split bool, must map[int]bool, loose map[int]bool) {
	p := h.Plan
	streams := map[int]*c12st{}
	inCall := map[int]string{}    // worker -> kind of call in progress
	liveByKey := map[int]*c12st{} // connection key -> stream with callbacks and no completion yet
	keyOf := func(dir int) int {
		if pkg.Bidir {
			return p.Dirs[dir].Conn
		}
		return dir
	}
	dirOf := func(st *c12st, side int) *Dir {
		d := p.Dirs[st.dir0]
		if side == 0 {
			return d
		}
		for _, o := range p.Dirs {
			if o.Conn == d.Conn && o.Side != d.Side && o.Inc == d.Inc {
				return o
			}
		}
		return nil
	}
	touch := func(st *c12st, i int) {
		if st.firstCB < 0 {
			st.firstCB = i
			k := keyOf(st.dir0)
			if o := liveByKey[k]; o != nil && o != st && o.completed == 0 {
				c.Fail("single-entry", "two-live-streams", "pool", "streams %d and %d both receive callbacks for the same connection (key %d): its directions / packets are not attached to a single connection entry", o.id, st.id, k)
			}
			liveByKey[k] = st
		}
	}
	deliver := func(st *c12st, side, skip int, start, end bool, data []byte, flush bool, evi int) {
		d := dirOf(st, side)
		if d == nil {
			c.Fail("in-order", "invented", "delivery", "stream %d got data for a direction that never sent anything", st.id)
		}
		x := st.sd[d.Idx]
		if x == nil {
			x = &c12sd{}
			st.sd[d.Idx] = x
		}
		first := x.deliveries == 0
		x.deliveries++
		if first && start && skip == 0 {
			x.anchored = true
		}
		// bytes of another direction?
		if len(data) >= 4 && !bytes.Contains(d.S, data) {
			for _, o := range p.Dirs {
				if o != d && bytes.Contains(o.S, data) {
					if (split || loose[d.Conn]) && o.Conn == d.Conn && o.Side == d.Side {
						// the same endpoint's bytes of another incarnation of the
						// 4-tuple, with nothing ordering the incarnations: the
						// connection cannot tell them apart
						return
					}
					c.Fail("in-order", "cross-stream-delivery", "delivery", "stream %d (direction %d) received %d bytes that belong to direction %d", st.id, d.Idx, len(data), o.Idx)
				}
			}
			c.Fail("in-order", "wrong-bytes", "delivery", "stream %d (direction %d) received %d bytes that occur nowhere in its sender's stream", st.id, d.Idx, len(data))
		}
		if split || loose[d.Conn] || !x.anchored {
			return
		}
		if skip == -1 || skip < -1 {
			c.Fail("gaps", "bad-skip", "delivery", "stream %d dir %d: skip=%d after the start had been seen", st.id, d.Idx, skip)
		}
		if skip > 0 {
			if !flush {
				c.Fail("gaps", "silent-skip", "assemble", "stream %d dir %d: skip=%d outside any flush (packets of this direction are fed in order by one assembler)", st.id, d.Idx, skip)
			}
			x.pos += skip
			c.Probe("flush_forced_skip")
		}
		if x.pos+len(data) > len(d.S) || !bytes.Equal(data, d.S[x.pos:x.pos+len(data)]) {
			c.Fail("in-order", "wrong-bytes", "delivery", "stream %d dir %d: %d bytes at pos %d (skip %d) differ from the sender's stream", st.id, d.Idx, len(data), x.pos, skip)
		}
		x.pos += len(data)
	}
	for i, e := range evs {
		switch e.Kind {
		case "call_enter":
			inCall[e.W] = e.S
		case "call_exit":
			delete(inCall, e.W)
		case "new":
			streams[int(e.A)] = &c12st{id: int(e.A), dir0: int(e.B), created: i, firstCB: -1, inside: -1, sd: map[int]*c12sd{}}
		case "cb_enter":
			st := streams[int(e.A)]
			if st == nil {
				c.Bugf("callback for unknown stream %d", e.A)
			}
			if st.inside >= 0 {
				c.Fail("serial-callbacks", "overlap", "stream", "worker %d entered a callback of stream %d while worker %d is inside another one", e.W, st.id, st.inside)
			}
			st.inside = e.W
			touch(st, i)
		case "cb_exit":
			streams[int(e.A)].inside = -1
		case "deliver":
			st := streams[int(e.A)]
			if st.completed > 0 {
				c.Fail("lifecycle", "data-after-completion", "stream", "stream %d got data after its completion callback", st.id)
			}
			deliver(st, int(e.B), int(e.C>>8), e.C&1 != 0, e.C&2 != 0, e.Data, inCall[e.W] == "flush", i)
		case "complete":
			st := streams[int(e.A)]
			st.completed++
			if st.completed > 1 {
				c.Fail("lifecycle", "completed-twice", "stream", "stream %d got its completion callback %d times", st.id, st.completed)
			}
			c.Probe("completed_concurrently")
		}
	}
	for _, fd := range finalDelivers {
		st := streams[fd.id]
		if st == nil {
			continue
		}
		if st.completed > 0 {
			c.Fail("lifecycle", "data-after-completion", "stream", "stream %d got data after its completion callback (final flush)", st.id)
		}
		deliver(st, fd.side, fd.skip, false, false, fd.data, true, len(evs))
	}
	for _, id := range finalCompletes {
		if st := streams[id]; st != nil {
			st.completed++
			if st.completed > 1 {
				c.Fail("lifecycle", "completed-twice", "stream", "stream %d got its completion callback %d times (second one in the final flush)", st.id, st.completed)
			}
			if st.firstCB < 0 {
				st.firstCB = len(evs)
			}
		}
	}
	// completeness
	for _, d := range p.Dirs {
		if !must[d.Idx] {
			continue
		}
		got, seen := 0, false
		for _, st := range streams {
			if x := st.sd[d.Idx]; x != nil && x.anchored {
				seen = true
				got += x.pos
			}
		}
		if !seen {
			c.Fail("in-order", "never-delivered", "flush-all", "direction %d (connection %d, incarnation %d, %d bytes, fed in order by one assembler) was delivered to no stream, not even by the final flush-all", d.Idx, d.Conn, d.Inc, len(d.S))
		}
		if got != len(d.S) {
			c.Fail("in-order", "bytes-never-delivered", "flush-all", "direction %d (connection %d, incarnation %d): %d of %d bytes delivered after the final flush-all although they were fed in order by one assembler", d.Idx, d.Conn, d.Inc, got, len(d.S))
		}
		if d.Inc > 0 {
			c.Probe("reopened_connection_delivered")
		}
	}
	kept := 0
	for _, st := range streams {
		if st.firstCB >= 0 {
			kept++
			if st.completed != 1 {
				c.Fail("lifecycle", "never-completed", "flush-all", "stream %d (direction %d) received callbacks but %d completion callbacks after the final flush-all", st.id, st.dir0, st.completed)
			}
		}
	}
	if kept < len(streams) {
		c.Probe("stream_created_and_discarded")
	}
}

// Package tcpsim is the discrete-event simulation of TCP senders and a lossy,
// reordering network in front of a TCP assembler (engine C), together with
// the reference delivery model the assemblers are checked against. It is
// shared by the reassembly and tcpassembly simulation binaries through the
// Assembler interface.
package tcpsim

import (
	"sort"
	"time"

	"github.com/gopacket/gopacket"
	"github.com/gopacket/gopacket/layers"

	"verif/sim"
)

// Dir is one direction of one simulated TCP connection.
type Dir struct {
	Idx      int
	Conn     int
	Side     int // 0 client->server, 1 server->client
	ISN      uint32
	S        []byte
	End      int // 0 FIN, 1 RST, 2 none (stalls for ever)
	Net      gopacket.Flow
	Src, Dst layers.TCPPort
	Inc      int // incarnation (re-opened 4-tuple), C11 only
	SynData  int // bytes carried by the SYN
	// Abort: the direction is reset in the middle (an injected or early RST at
	// offset AbortAt) while its data segments keep coming
	Abort   bool
	AbortAt int
}

// EndOff is the stream offset at which this direction legitimately ends.
func (d *Dir) EndOff() int {
	if d.Abort {
		return d.AbortAt
	}
	return len(d.S)
}

// Pkt is one TCP segment on its way to the sniffer.
type Pkt struct {
	Dir           int
	Seq           uint32
	SYN, FIN, RST bool
	Off, Len      int // payload is S[Off:Off+Len]
	Kind          string
}

// Event kinds.
const (
	EvPkt = iota
	EvFlushT
	EvFlushClose
	EvFlushAll
	EvFlushTTC // flush with separate cut-offs for releasing data (T) and closing (TC)
)

// Event is one entry of the discrete-event queue.
type Event struct {
	At  int64 // simulated ns since Base
	Ord int
	K   int
	P   *Pkt
	Age int64 // for flushes: cut-off = now - Age
	// EvFlushTTC: closing cut-off = now - AgeC; NoT: the data cut-off is the zero time
	AgeC int64
	NoT  bool
}

// Base is the simulated epoch.
var Base = time.Date(2021, 3, 4, 5, 6, 7, 0, time.UTC)

// T converts simulated ns to a timestamp.
func T(ns int64) time.Time { return Base.Add(time.Duration(ns)) }

// GenCfg are the per-run knobs, themselves drawn from the tape (swarm style).
type GenCfg struct {
	MaxConns    int
	AllowNoEnd  bool
	AllowRST    bool
	CloseFlush  bool // generate closing flushes (C11)
	Reopen      bool // re-open 4-tuples (C11)
	BackJumps   bool // timestamps may jump backwards (C11)
	ForceLimits bool
	SynData     bool // SYN segments may carry data
	Short       bool // bias stream lengths down (many-connection lifecycle runs)
	FinalTTC    bool // sometimes a last flush with separate data and closing cut-offs, closing later than data
	Drift       bool // sometimes: many small buffered runs in front, multi-page segments behind them, under a page limit
	Wide        bool // once in a while: more connections and buffered pages than the pools' first allocation holds
}

// Plan is a generated run.
type Plan struct {
	Dirs   []*Dir
	Events []Event
	// knobs used
	PerConnLimit, TotalLimit int
	ReorderPm, DropPm, DupPm int
	Rexmits                  int
}

func fillStream(d *Dir, n int) {
	// bytes are a pure function of (conn, side, inc, offset): distinguishable
	// across directions and offsets with overwhelming probability
	x := sim.Mix(0xC0FFEE, uint64(d.Conn), uint64(d.Side), uint64(d.Inc))
	d.S = make([]byte, n)
	for i := 0; i < n; i += 8 {
		x = x*6364136223846793005 + 1442695040888963407
		v := x ^ (x >> 29)
		for j := 0; j < 8 && i+j < n; j++ {
			d.S[i+j] = byte(v >> (8 * j))
		}
	}
}

func pickISN(c *sim.Ctx, n int) uint32 {
	switch c.Weighted(3, 3, 1, 1, 1, 1) {
	case 0:
		return 1000
	case 1: // wrap inside the stream
		return uint32(0x100000000 - int64(c.Range(0, n+2)))
	case 2: // the stream crosses 2^30, 2^31 or 3*2^30 (quarter and half of the space)
		switch c.Draw(3) {
		case 0:
			return uint32(0x40000000 - int64(c.Range(0, n+2)))
		case 1:
			return uint32(0x80000000 - int64(c.Range(0, n+2)))
		}
		return uint32(0xC0000000 - int64(c.Range(0, n+2)))
	case 3:
		return 0
	case 4:
		return 0xFFFFFFFF
	default:
		return uint32(c.Draw(1<<30)) | uint32(c.Draw(4))<<30
	}
}

// Generate draws a complete run: connections, segmentations, network faults,
// flush timers. Value 0 on the tape always means the simplest choice.
func Generate(c *sim.Ctx, cfg GenCfg) *Plan {
	p := &Plan{}
	nconn := 1 + c.Weighted(6, 2, 1)
	if cfg.MaxConns > 3 {
		nconn = 1 + c.Draw(cfg.MaxConns)
	}
	if nconn > cfg.MaxConns && cfg.MaxConns > 0 {
		nconn = cfg.MaxConns
	}
	// fault knobs for this run
	p.ReorderPm = []int{0, 60, 250, 600}[c.Weighted(3, 3, 2, 1)]
	p.DropPm = []int{0, 30, 150}[c.Weighted(4, 2, 1)]
	p.DupPm = []int{0, 60, 300}[c.Weighted(4, 2, 1)]
	p.Rexmits = c.Weighted(4, 2, 1, 1)
	switch c.Weighted(5, 2, 2, 1) {
	case 1:
		p.PerConnLimit = 1 + c.Draw(8)
	case 2:
		p.TotalLimit = 1 + c.Draw(16)
	case 3: // both at once: either may be the one that bites
		p.PerConnLimit = 1 + c.Draw(8)
		p.TotalLimit = 1 + c.Draw(16)
	}
	segClass := c.Weighted(2, 3, 3, 2)
	segMax := []int{16, 200, 1460, 4000}[segClass]
	holdBurst := c.Chance(150)
	synLate := c.Chance(150)

	ord := 0
	add := func(at int64, k int, pk *Pkt, age int64) {
		p.Events = append(p.Events, Event{At: at, Ord: ord, K: k, P: pk, Age: age})
		ord++
	}
	var maxT int64
	wide := cfg.Wide && c.Chance(3)
	if wide {
		// Over a thousand connections at once, each with one segment buffered
		// behind a missing byte: the connection pool and the page cache have to
		// grow beyond their first allocation (1024 objects each). Few choices
		// per connection, so that the tape stays short.
		c.Fault("wide_run_over_1024_connections")
		nconn = 1030 + c.Draw(40)
		p.ReorderPm, p.DropPm, p.DupPm, p.Rexmits, p.PerConnLimit, p.TotalLimit = 0, 0, 0, 0, 0, 0
		if c.Chance(300) {
			p.TotalLimit = 1000 + c.Draw(60)
		}
		fill := c.Chance(800) // the missing byte arrives later (else only a flush releases the rest)
		for ci := 0; ci < nconn; ci++ {
			d := &Dir{Idx: len(p.Dirs), Conn: ci, Side: 0}
			d.Net = gopacket.NewFlow(layers.EndpointIPv4, []byte{10, 0, byte(ci >> 8), byte(ci + 1)}, []byte{10, 1, byte(ci >> 8), byte(ci + 1)})
			d.Src, d.Dst = layers.TCPPort(1000+ci), layers.TCPPort(80)
			n := 3 + ci%5
			fillStream(d, n)
			d.ISN = 1000 + uint32(ci)*7919
			p.Dirs = append(p.Dirs, d)
			t0 := int64(ci) * 1000
			add(t0, EvPkt, &Pkt{Dir: d.Idx, Seq: d.ISN, SYN: true, Kind: "syn"}, 0)
			add(t0+500, EvPkt, &Pkt{Dir: d.Idx, Seq: d.ISN + 2, Off: 1, Len: n - 1, Kind: "data"}, 0)
			t1 := int64(nconn)*1000 + 50_000 + int64(ci)*1000
			if fill {
				add(t1, EvPkt, &Pkt{Dir: d.Idx, Seq: d.ISN + 1, Off: 0, Len: 1, Kind: "data"}, 0)
			}
			add(t1+500, EvPkt, &Pkt{Dir: d.Idx, Seq: d.ISN + 1 + uint32(n), FIN: true, Off: n, Kind: "end"}, 0)
			maxT = t1 + 500
		}
	}
	drift := !wide && cfg.Drift && c.Chance(25)
	if drift {
		// One direction under a page limit: small segments with holes between
		// them are buffered first (each a run of its own), then segments of
		// several pages arrive further on, also with holes. Every arrival has to
		// make room for itself: releasing one run per arrival is not enough when
		// the run released is one page and the arrival is three.
		c.Fault("small_runs_in_front_of_multi_page_segments")
		nconn = 1
		p.ReorderPm, p.DropPm, p.DupPm, p.Rexmits = 0, 0, 0, 0
		lim := 3 + c.Draw(8)
		if c.Chance(700) {
			p.PerConnLimit, p.TotalLimit = lim, 0
		} else {
			p.PerConnLimit, p.TotalLimit = 0, lim
		}
		nsmall, nbig := lim-1-c.Draw(2), 3+c.Draw(5)
		d := &Dir{Idx: 0, Conn: 0, Side: 0}
		d.Net = gopacket.NewFlow(layers.EndpointIPv4, []byte{10, 0, 0, 1}, []byte{10, 1, 0, 1})
		d.Src, d.Dst = layers.TCPPort(1000), layers.TCPPort(80)
		n := 100 + nsmall*40 + nbig*3*PageBytes + 100
		fillStream(d, n)
		d.ISN = pickISN(c, n)
		d.End = 2
		p.Dirs = append(p.Dirs, d)
		t := int64(0)
		add(t, EvPkt, &Pkt{Dir: 0, Seq: d.ISN, SYN: true, Kind: "syn"}, 0)
		off := 100
		for i := 0; i < nsmall; i++ {
			t += 50_000
			add(t, EvPkt, &Pkt{Dir: 0, Seq: d.ISN + 1 + uint32(off), Off: off, Len: 10, Kind: "data"}, 0)
			off += 40
		}
		for i := 0; i < nbig; i++ {
			t += 50_000
			l := PageBytes + 1 + c.Draw(2*PageBytes-2)
			add(t, EvPkt, &Pkt{Dir: 0, Seq: d.ISN + 1 + uint32(off), Off: off, Len: l, Kind: "data"}, 0)
			off += 3 * PageBytes
		}
		if c.Chance(500) {
			// the beginning arrives at last
			t += 50_000
			add(t, EvPkt, &Pkt{Dir: 0, Seq: d.ISN + 1, Off: 0, Len: 100, Kind: "data"}, 0)
		}
		maxT = t
	}
	for ci := 0; ci < nconn && !wide && !drift; ci++ {
		ndir := 1 + c.Weighted(2, 3)
		incs := 1
		if cfg.Reopen && c.Chance(250) {
			incs = 2
		}
		start := int64(c.Draw(5)) * 200_000
		for inc := 0; inc < incs; inc++ {
			var connEnd int64
			for side := 0; side < ndir; side++ {
				d := &Dir{Idx: len(p.Dirs), Conn: ci, Side: side, Inc: inc}
				src := []byte{10, 0, byte(ci >> 8), byte(ci + 1)}
				dst := []byte{10, 1, byte(ci >> 8), byte(ci + 1)}
				sp, dp := layers.TCPPort(1000+ci), layers.TCPPort(80)
				if side == 1 {
					src, dst, sp, dp = dst, src, dp, sp
				}
				d.Net = gopacket.NewFlow(layers.EndpointIPv4, src, dst)
				d.Src, d.Dst = sp, dp
				n := 0
				lw := []int{3, 3, 3, 2, 1}
				if cfg.Short {
					lw = []int{6, 4, 2, 1, 2}
				}
				switch c.Weighted(lw...) {
				case 0:
					n = 1 + c.Draw(24)
				case 1:
					n = c.Draw(600)
				case 2:
					n = c.Draw(4000)
				case 3:
					n = c.Draw(12288)
				case 4:
					n = 0
				}
				fillStream(d, n)
				d.ISN = pickISN(c, n)
				if cfg.AllowRST && c.Chance(150) {
					d.End = 1
				} else if cfg.AllowNoEnd && c.Chance(200) {
					d.End = 2
				}
				p.Dirs = append(p.Dirs, d)

				// segments: SYN, data partition, FIN/RST
				type sent struct {
					pk *Pkt
					at int64
				}
				var sents []sent
				t := start + int64(side)*50_000
				emit := func(pk *Pkt, at int64) { sents = append(sents, sent{pk, at}) }
				synData := 0
				if cfg.SynData && n > 0 && c.Chance(120) {
					// TCP Fast Open style: the SYN carries the first bytes
					synData = 1 + c.Draw(min(n, segMax))
					c.Fault("syn_carries_data")
					d.SynData = synData
				}
				emit(&Pkt{Dir: d.Idx, Seq: d.ISN, SYN: true, Len: synData, Kind: "syn"}, t)
				// the FIN may carry the last bytes of the stream, as it often does
				finData := 0
				if cfg.SynData && d.End == 0 && n > synData && c.Chance(200) {
					finData = 1 + c.Draw(min(n-synData, segMax))
					c.Fault("fin_carries_data")
				}
				for off := synData; off < n-finData; {
					l := 1 + c.Draw(segMax)
					if off+l > n-finData {
						l = n - finData - off
					}
					t += int64(1+c.Draw(20)) * 50_000
					emit(&Pkt{Dir: d.Idx, Seq: d.ISN + 1 + uint32(off), Off: off, Len: l, Kind: "data"}, t)
					off += l
					if cfg.SynData && c.Chance(60) {
						// a segment without payload (pure ACK, window update) at the
						// sender's current position
						c.Fault("empty_segment")
						emit(&Pkt{Dir: d.Idx, Seq: d.ISN + 1 + uint32(off), Off: off, Len: 0, Kind: "ack"}, t+int64(1+c.Draw(10))*5_000)
					}
				}
				t += 50_000
				if cfg.SynData && cfg.AllowRST && d.End == 1 && n > 1 && c.Chance(350) {
					// the reset comes in the middle of the sequence space (injected by
					// a middlebox, or sent early): segments beyond it are still on
					// their way and some may already be buffered when it arrives
					d.Abort, d.AbortAt = true, c.Draw(n)
					c.Fault("mid_stream_reset")
					emit(&Pkt{Dir: d.Idx, Seq: d.ISN + 1 + uint32(d.AbortAt), RST: true, Off: d.AbortAt, Kind: "end"}, start+int64(c.Draw(int((t-start)/50_000)+2))*50_000+11)
				} else if d.End != 2 {
					emit(&Pkt{Dir: d.Idx, Seq: d.ISN + 1 + uint32(n-finData), FIN: d.End == 0, RST: d.End == 1, Off: n - finData, Len: finData, Kind: "end"}, t)
				}
				// retransmissions with a different segmentation
				for r := 0; r < p.Rexmits && n > 0; r++ {
					a := c.Draw(n)
					l := 1 + c.Draw(segMax)
					if a+l > n {
						l = n - a
					}
					emit(&Pkt{Dir: d.Idx, Seq: d.ISN + 1 + uint32(a), Off: a, Len: l, Kind: "rexmit"}, start+int64(c.Draw(int((t-start)/50_000)+20))*50_000+7)
				}
				// network
				holdFrom, holdTo, holdBy := -1, -1, int64(0)
				if holdBurst && n > 0 {
					holdFrom = c.Draw(n)
					holdTo = holdFrom + 1 + c.Draw(n-holdFrom)
					holdBy = int64(1+c.Draw(40)) * 100_000
				}
				for i, s := range sents {
					at := s.at
					if s.pk.SYN {
						if synLate {
							c.Fault("syn_delayed")
							at += int64(1+c.Draw(30)) * 60_000
						}
					} else {
						if c.Chance(p.DropPm) && !(s.pk.FIN || s.pk.RST) {
							c.Fault("drop")
							continue
						}
						if c.Chance(p.ReorderPm) {
							c.Fault("delay_reorder")
							at += int64(1+c.Draw(60)) * 45_000
						}
						if s.pk.Kind == "data" && s.pk.Off >= holdFrom && s.pk.Off < holdTo {
							c.Fault("burst_holdback")
							at += holdBy
						}
						if s.pk.Kind == "rexmit" {
							c.Fault("overlapping_retransmit")
						}
					}
					add(at, EvPkt, s.pk, 0)
					if at > connEnd {
						connEnd = at
					}
					if c.Chance(p.DupPm) {
						c.Fault("duplicate")
						cp := *s.pk
						cp.Kind = "dup"
						dat := at + int64(1+c.Draw(50))*30_000
						add(dat, EvPkt, &cp, 0)
						if dat > connEnd {
							connEnd = dat
						}
					}
					_ = i
				}
			}
			if connEnd > maxT {
				maxT = connEnd
			}
			start = connEnd + int64(1+c.Draw(10))*100_000
		}
	}
	// flush timers
	nfl := c.Weighted(3, 3, 2, 1)
	for i := 0; i < nfl; i++ {
		at := int64(c.Draw(int(maxT/50_000)+40)) * 50_000
		age := int64(c.Weighted(2, 2, 2, 1)) * int64(1+c.Draw(20)) * 100_000
		k := EvFlushT
		if cfg.CloseFlush && c.Chance(400) {
			k = EvFlushClose
		}
		if cfg.CloseFlush && c.Chance(250) {
			// data and closing cut-offs chosen independently (either may be the
			// older one, the data cut-off may be absent)
			k = EvFlushTTC
		}
		add(at+3, k, nil, age)
		if k == EvFlushTTC {
			e := &p.Events[len(p.Events)-1]
			e.AgeC = int64(c.Weighted(2, 2, 2, 1)) * int64(1+c.Draw(20)) * 100_000
			e.NoT = c.Chance(250)
		}
	}
	sort.SliceStable(p.Events, func(i, j int) bool {
		if p.Events[i].At != p.Events[j].At {
			return p.Events[i].At < p.Events[j].At
		}
		return p.Events[i].Ord < p.Events[j].Ord
	})
	if cfg.BackJumps && c.Chance(200) {
		// capture timestamps are not always monotone: shift a span back
		if n := len(p.Events); n > 2 {
			a := c.Draw(n)
			b := a + 1 + c.Draw(n-a)
			by := int64(1+c.Draw(30)) * 100_000
			for i := a; i < b && i < n; i++ {
				p.Events[i].At -= by
				if p.Events[i].At < 0 {
					p.Events[i].At = 0
				}
			}
			c.Fault("clock_jump_back")
		}
	}
	last := int64(0)
	for _, e := range p.Events {
		if e.At > last {
			last = e.At
		}
	}
	if cfg.FinalTTC && c.Chance(100) {
		// Before the final flush-all: a flush that releases data older than T
		// and closes what has been idle since TC, with TC later than T. What is
		// buffered from between the two is neither released nor may it be lost
		// to an early close: the flush-all still has to deliver it.
		age := int64(2+c.Draw(20)) * 100_000
		ageC := int64(c.Draw(int(age/100_000))) * 100_000
		last += 500_000
		p.Events = append(p.Events, Event{At: last, Ord: ord, K: EvFlushTTC, Age: age, AgeC: ageC})
		ord++
		c.Fault("final_flush_closing_cutoff_later_than_data_cutoff")
	}
	p.Events = append(p.Events, Event{At: last + 1_000_000, Ord: ord, K: EvFlushAll})
	return p
}

// TCP builds the layers.TCP value for a packet, field by field, over a fresh
// copy of the payload (which the caller scribbles over after the call, as a
// capture ring would).
func (p *Plan) TCP(pk *Pkt) (*layers.TCP, []byte) {
	d := p.Dirs[pk.Dir]
	buf := append([]byte(nil), d.S[pk.Off:pk.Off+pk.Len]...)
	t := &layers.TCP{SrcPort: d.Src, DstPort: d.Dst, Seq: pk.Seq, SYN: pk.SYN, FIN: pk.FIN, RST: pk.RST}
	t.Payload = buf
	t.SetInternalPortsForTesting()
	return t, buf
}

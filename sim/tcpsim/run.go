package tcpsim

import (
	"time"

	"verif/sim"
)

// RunCfg selects which clauses a run checks.
type RunCfg struct {
	Gen       GenCfg
	Strong    bool // byte-exact delivery model
	Lifecycle bool // completion / leak / limit / age-flush clauses (C11)
	Bidir     bool
}

// feed hands one packet to the assembler and keeps the model's books.
func (h *Harness) feed(ev *Event) {
	c, p := h.C, h.P
	pk := ev.P
	d := p.Dirs[pk.Dir]
	curInc = d.Inc
	t, buf := p.TCP(pk)
	h.Kind = CallAssemble
	h.StartEv = int32(c.Events + 1)
	h.PrePages = h.A.PagesUsed()
	h.PreMax, _, _, _ = h.A.Queued()
	if b, ok := h.A.(interface{ Buffered() int }); ok {
		// what counts towards the per-connection limit: queued pages and pages
		// kept on request of the stream
		h.PreMax = b.Buffered()
	}
	h.PktPages = pagesOf(pk.Len)
	h.created = nil
	h.liveAt = h.cur[d.Idx]
	if h.liveAt != nil && h.liveAt.Completed > 0 && h.liveAt.Removed {
		h.liveAt = nil
	}
	preEnded := false
	if h.liveAt != nil {
		x := h.sdOf(h.liveAt, d)
		preEnded = x.Ended
		if pk.SYN && !x.SynFed && h.liveAt.Completed == 0 {
			x.SynFed = true
			x.Anchored = x.Deliveries == 0
			if x.Anchored && anyFed(x) {
				c.Probe("syn_overtaken_by_data")
			}
		}
	}
	if pk.FIN || pk.RST {
		if h.liveAt != nil {
			h.sdOf(h.liveAt, d).EndFed = true
		}
		h.endFeeding = true
	}
	h.feeding = pk
	c.Ev("assemble", int64(pk.Dir), int64(pk.Seq), int64(pk.Len), b2i(pk.SYN), b2i(pk.FIN || pk.RST), ev.At)
	h.A.Assemble(d.Net, t, T(ev.At))
	h.feeding = nil
	h.endFeeding = false
	// the caller owns the buffer again: scribble over it, as a capture ring
	// that reuses its memory would
	for i := range buf {
		buf[i] = 0xEE
	}
	target := h.liveAt
	if target == nil {
		target = h.created
	}
	if target != nil && !preEnded && (pk.SYN || pk.FIN || pk.RST || pk.Len > 0) {
		// (segments without payload and flags are "useless packets" that an
		// assembler may ignore altogether, and so may be segments of a direction
		// that has already ended: neither counts as activity)
		target.LastFedAt, target.HasFed = ev.At, true
	}
	if target != nil && !preEnded && pk.Len > 0 {
		x := h.sdOf(target, d)
		for o := pk.Off; o < pk.Off+pk.Len; o++ {
			if x.fedEv[o] == 0 {
				x.fedEv[o] = h.StartEv
				x.fedAtMin[o] = ev.At
			} else if ev.At < x.fedAtMin[o] {
				x.fedAtMin[o] = ev.At
			}
		}
		if pk.Off+pk.Len > x.FedHigh {
			x.FedHigh = pk.Off + pk.Len
		}
	}
	h.Kind = CallNone
	if h.Lifecycle {
		// out-of-order pages are counted by walking the queues (pages a stream
		// asked to keep are not among them)
		maxp, queued, _, _ := h.A.Queued()
		if l := p.PerConnLimit; l > 0 && maxp > l+h.PktPages {
			c.Fail("page-limit", "exceeded", "per-connection", "after Assemble a connection holds %d out-of-order pages; limit %d, packet being processed %d pages", maxp, l, h.PktPages)
		}
		if l := p.TotalLimit; l > 0 && queued > l+h.PktPages {
			c.Fail("page-limit", "exceeded", "total", "after Assemble %d out-of-order pages are queued; limit %d, packet being processed %d pages", queued, l, h.PktPages)
		}
		if l := p.TotalLimit; l > 0 && h.NoKeep && h.A.PagesUsed() > l+h.PktPages {
			c.Fail("page-limit", "exceeded", "total", "after Assemble %d pages are in use; limit %d, packet being processed %d pages", h.A.PagesUsed(), l, h.PktPages)
		}
	}
}

func anyFed(x *SD) bool {
	for _, e := range x.fedEv {
		if e != 0 {
			return true
		}
	}
	return false
}

func (h *Harness) stateHash() uint64 {
	// abstract state: per live stream/direction (pos class, queued?, ended),
	// pages in use bucket, pool size
	var acc uint64 = 1469598103934665603
	mix := func(v uint64) { acc = (acc ^ v) * 1099511628211 }
	var sum uint64
	for _, s := range h.Streams {
		if s.Completed > 0 {
			sum += 0xdead
			continue
		}
		for _, x := range s.sd {
			pc := 0
			switch {
			case x.Pos == 0:
			case x.Pos >= len(x.Dir.S):
				pc = 3
			case x.Pos < len(x.Dir.S)/2:
				pc = 1
			default:
				pc = 2
			}
			ahead := x.FedHigh - x.Pos
			if ahead < 0 {
				ahead = 0
			}
			v := uint64(pc) | uint64(b2i(x.Anchored))<<2 | uint64(b2i(x.Ended))<<3 | uint64(b2i(x.Skipped > 0))<<4 | uint64(min(ahead/1900, 7))<<5 | uint64(b2i(ahead > 0))<<8
			sum += (v + 1) * 0x9e3779b97f4a7c15
		}
	}
	mix(sum)
	mix(uint64(min(h.A.PagesUsed(), 9)))
	mix(uint64(h.A.PoolConns()))
	return acc
}

// Run executes one simulated run against the assembler made by mk.
func Run(c *sim.Ctx, cfg RunCfg, mk func(h *Harness) Assembler) {
	p := Generate(c, cfg.Gen)
	h := NewHarness(c, p)
	h.Strong, h.Lifecycle, h.Bidir = cfg.Strong, cfg.Lifecycle, cfg.Bidir
	h.NoKeep = true
	h.A = mk(h)
	h.A.SetLimits(p.PerConnLimit, p.TotalLimit)
	c.Ev("plan", int64(len(p.Dirs)), int64(len(p.Events)), int64(p.PerConnLimit), int64(p.TotalLimit))
	for _, d := range p.Dirs {
		c.Ev("dir", int64(d.Idx), int64(d.Conn), int64(d.Side), int64(d.ISN), int64(len(d.S)), int64(d.End), int64(d.Inc))
		if int64(d.ISN)+int64(len(d.S))+2 > 1<<32 {
			c.Probe("stream_crosses_wrap")
		}
	}
	var lastAt int64
	for i := range p.Events {
		ev := &p.Events[i]
		if ev.At > lastAt {
			c.Advance(T(ev.At).Sub(T(lastAt)))
			lastAt = ev.At
		}
		switch ev.K {
		case EvPkt:
			h.feed(ev)
		case EvFlushT, EvFlushClose, EvFlushTTC:
			ttc, hasTTC := h.A.(interface {
				FlushTTC(t, tc time.Time) (int, int)
			})
			if ev.K == EvFlushTTC && !hasTTC {
				ev.K = EvFlushT // this assembler has no separate closing cut-off
			}
			h.Kind = CallFlushT
			if ev.K != EvFlushT {
				h.Kind = CallFlushClose
			}
			h.StartEv = int32(c.Events + 1)
			h.CutOff = T(ev.At - ev.Age)
			h.CutOffC = h.CutOff
			if ev.K == EvFlushTTC {
				h.CutOffC = T(ev.At - ev.AgeC)
			}
			if ev.K == EvFlushTTC && ev.NoT {
				h.CutOff = time.Time{}
			}
			h.Completes = 0
			c.Ev("flush", int64(ev.K), ev.At, ev.Age, ev.AgeC, b2i(ev.NoT))
			c.Fault("flush_timer")
			var fl, cl int
			switch ev.K {
			case EvFlushT:
				fl, cl = h.A.FlushT(h.CutOff)
			case EvFlushClose:
				fl, cl = h.A.FlushClose(h.CutOff)
			case EvFlushTTC:
				c.Fault("flush_with_separate_closing_cutoff")
				fl, cl = ttc.FlushTTC(h.CutOff, T(ev.At-ev.AgeC))
			}
			c.Ev("flush_ret", int64(fl), int64(cl))
			kind := h.Kind
			h.Kind = CallNone
			if h.Lifecycle {
				if _, _, oldest, any := h.A.Queued(); any && oldest.Before(h.CutOff) {
					c.Fail("age-flush", "old-data-left", "flush", "after a flush with cut-off %v a connection still waits in front of data captured at %v", h.CutOff.Sub(Base), oldest.Sub(Base))
				}
				if kind == CallFlushT && h.Completes > cl {
					c.Fail("flush-result", "closed-count", "flush", "flush reported %d closed but %d completion callbacks ran", cl, h.Completes)
				}
				if !h.Bidir && h.Completes != cl {
					c.Fail("flush-result", "closed-count", "flush", "flush reported %d closed but %d completion callbacks ran", cl, h.Completes)
				}
				if h.Bidir && h.Completes > cl {
					c.Fail("flush-result", "closed-count", "flush", "flush reported %d half-connections closed but %d completion callbacks ran", cl, h.Completes)
				}
			}
		case EvFlushAll:
			h.Kind = CallFlushAll
			h.StartEv = int32(c.Events + 1)
			h.Completes = 0
			c.Ev("flush_all", ev.At)
			n := h.A.FlushAll()
			c.Ev("flush_all_ret", int64(n))
			h.Kind = CallNone
			h.final(n)
		}
		c.State(h.stateHash())
	}
}

// final checks what must hold after the final flush-all.
func (h *Harness) final(closed int) {
	c := h.C
	if h.Strong {
		for _, s := range h.Streams {
			for _, x := range s.sd {
				if !x.Anchored {
					continue
				}
				if x.Ended && x.Dir.Abort {
					// what lies beyond a reset that was honoured is not owed any more
					continue
				}
				for o, e := range x.fedEv {
					if e != 0 && o >= x.Pos {
						c.Fail("exactly-once", "arrived-bytes-never-delivered", "flush-all", "dir %d: offset %d arrived (event %d) but after flush-all only %d bytes were handed over or announced as skipped", x.Dir.Idx, o, e, x.Pos)
					}
				}
				if x.Skipped > 0 {
					c.Probe("gap_announced")
				}
			}
		}
	}
	if !h.Lifecycle {
		return
	}
	kept := 0
	for _, s := range h.Streams {
		if s.Completed != 1 {
			c.Fail("lifecycle", "never-completed", "flush-all", "stream %d (dir %d) had %d completion callbacks after flush-all", s.ID, s.Dir0, s.Completed)
		}
		if !s.Removed {
			kept++
		}
	}
	if n := h.A.PoolConns(); n > kept {
		c.Fail("leak", "connections-left", "flush-all", "%d connections remain in the pool after flush-all; %d streams declined removal", n, kept)
	}
	if n := h.A.PagesUsed(); n != 0 {
		c.Fail("leak", "pages-in-use", "flush-all", "%d buffer pages still in use after flush-all", n)
	}
}

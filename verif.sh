#!/bin/sh
# entry point for MANIFEST commands: builds the driver from source, then runs it
here=$(cd "$(dirname "$0")" && pwd)
cd "$here" || exit 2
. ./env.sh
export VERIF_ROOT="$here"
mkdir -p bin
go build -o bin/verif ./cmd/verif || exit 2
exec ./bin/verif "$@"

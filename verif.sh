#!/bin/sh
# entry point for MANIFEST commands: builds the driver from source, then runs it
cd /verif || exit 2
. ./env.sh
mkdir -p bin
go build -o bin/verif ./cmd/verif || exit 2
exec ./bin/verif "$@"
